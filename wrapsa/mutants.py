"""Checker self-test table (DESIGN section 7): per property, breaking edits the rules must report
and benign edits on which they must stay silent.  Each edit is (file, old, new[, nth]) and is
applied to a scratch copy of the *current* tree; an edit that no longer applies is skipped."""

IP = "gtwrap/interface_parser/"
TI = "gtwrap/template_instantiator/"
PW = "gtwrap/pybind_wrapper.py"
MW = "gtwrap/matlab_wrapper/wrapper.py"
MT = "gtwrap/matlab_wrapper/templates.py"
MX = "gtwrap/matlab_wrapper/mixins.py"
XP = "gtwrap/xml_parser/xml_parser.py"


def B(id, rules, *edits, **kw):
    d = {"id": id, "kind": "break", "rules": set(rules), "edits": list(edits)}
    d.update(kw)
    return d


def N(id, *edits):
    return {"id": id, "kind": "benign", "rules": set(), "edits": list(edits)}


TABLE = {}

TABLE["C01"] = [
    B("templated-const-name-dropped", {"G1", "G2", "F3"},
      (IP + "type.py", 'Optional(CONST("is_const"))  #\n        + Typename.rule("typename")',
       'Optional(CONST)  #\n        + Typename.rule("typename")')),
    B("templated-flag-misrouted", {"F3"},
      (IP + "type.py", "t.is_shared_ptr, t.is_ptr, t.is_ref)", "t.is_ptr, t.is_ptr, t.is_ref)")),
    B("type-flag-not-forwarded", {"F3", "G1"},
      (IP + "type.py", "                is_ref=t.is_ref,\n                is_basic=False,",
       "                is_ref='',\n                is_basic=False,")),
    B("members-operator-dropped", {"G5"},
      (IP + "classes.py", "elif isinstance(m, Operator):\n                    self.operators.append(m)",
       "elif isinstance(m, Operator):\n                    pass")),
    B("class-lists-swapped", {"G5", "F1"},
      (IP + "classes.py", "t.members.ctors, t.\n        members.methods, t.members.static_methods",
       "t.members.ctors, t.\n        members.static_methods, t.members.methods")),
    B("to-cpp-guard-weakened", {"F3", "F2"},
      (IP + "type.py", "        elif self.is_ref:\n            typename = typename = \"{typename}&\".format(\n                typename=self.typename.to_cpp())",
       "        elif self.is_ref and not self.is_const:\n            typename = typename = \"{typename}&\".format(\n                typename=self.typename.to_cpp())")),
    B("ordered-choice-on-types", {"G7"},
      (IP + "function.py", '((Type.rule ^ TemplatedType.rule)("ctype")', '((Type.rule | TemplatedType.rule)("ctype")')),
    B("namespace-scope-lacks-enum", {"G4"},
      (IP + "namespace.py", "            ^ Enum.rule  #\n            ^ Variable.rule  #\n            ^ rule  #",
       "            ^ Variable.rule  #\n            ^ rule  #")),
    B("phantom-results-name", {"G2", "G1"},
      (IP + "classes.py", "args_list, t.is_const))\n\n    def __init__(self,\n                 template:",
       "args_list, t.const))\n\n    def __init__(self,\n                 template:")),
    B("members-sorted", {"G6"},
      (IP + "classes.py", "            for m in members:", "            for m in sorted(members, key=repr):")),
    B("typename-position-skipped", {"G1"},
      (IP + "type.py", "self.namespaces = t[:-1]", "self.namespaces = t[1:-1]")),
    B("argument-default-dropped", {"G1"},
      (IP + "function.py", "                t.default[0] if isinstance(t.default, ParseResults) else None))",
       "                None))")),
    B("results-name-clash", {"G3", "G2", "G1"},
      (IP + "classes.py", '        + IDENT("name")  #\n        + LPAREN  #\n        + ArgumentList.rule("args_list")  #\n        + RPAREN  #\n        + Optional(CONST("is_const"))',
       '        + IDENT("name")  #\n        + LPAREN  #\n        + ArgumentList.rule("name")  #\n        + RPAREN  #\n        + Optional(CONST("is_const"))')),
    B("ctor-parameter-ignored", {"F1"},
      (IP + "function.py", "        self.args = args_list\n        self.template = template\n",
       "        self.args = args_list\n        self.template = ''\n")),
    B("const-spelled-from-wrong-flag", {"F3", "F2"},
      (IP + "type.py", 'const="const " if self.is_const else "", typename=typename))',
       'const="const " if self.is_ref else "", typename=typename))', 0)),
    B("shared-ptr-spelled-as-raw", {"F3", "F2"},
      (IP + "type.py", 'typename = f"std::shared_ptr<{typename}>"', 'typename = f"{typename}*"')),
    B("enum-name-unread", {"G1"},
      (IP + "enum.py", "lambda t: Enum(t.name, t.enumerators))", "lambda t: Enum(t.name, []))")),
    B("module-second-token", {"G1"},
      (IP + "module.py", "                   ).setParseAction(lambda t: Namespace('', t.asList())) +\n        stringEnd)",
       "                   ).setParseAction(lambda t: Namespace('', t.asList())) +\n        ZeroOrMore(Include.rule) + stringEnd)")),
    N("lambda-parameter-renamed",
      (IP + "classes.py", "lambda t: StaticMethod(t.name, t.return_type, t.args_list, t.template))",
       "lambda toks: StaticMethod(toks.name, toks.return_type, toks.args_list, toks.template))")),
    N("keyword-arguments",
      (IP + "classes.py", "lambda t: StaticMethod(t.name, t.return_type, t.args_list, t.template))",
       "lambda t: StaticMethod(name=t.name, return_type=t.return_type, template=t.template, args=t.args_list))")),
    N("format-to-fstring",
      (IP + "type.py", '            typename = "{typename}*".format(typename=self.typename.to_cpp())',
       '            typename = f"{self.typename.to_cpp()}*"')),
    N("double-assignment-removed",
      (IP + "type.py", 'typename = typename = "{typename}&".format(typename=typename)',
       'typename = "{typename}&".format(typename=typename)')),
    N("subscript-read",
      (IP + "enum.py", "lambda t: Enum(t.name, t.enumerators))", 'lambda t: Enum(t["name"], t["enumerators"]))')),
]

TABLE["C12"] = [
    B("combine-on-qualified-names", {"L2"},
      (IP + "type.py", "from pyparsing import Forward, Optional, Or, delimitedList",
       "from pyparsing import Combine, Forward, Optional, Or, delimitedList"),
      (IP + "type.py", 'namespaces_name_rule = delimitedList(IDENT, "::")',
       'namespaces_name_rule = Combine(delimitedList(IDENT, "::"))')),
    B("ignore-on-subrule-only", {"L1"},
      (IP + "module.py", "    rule.ignore(cppStyleComment)", "    Namespace.rule.ignore(cppStyleComment)")),
    B("multiword-keyword-reintroduced", {"L2"},
      (IP + "tokens.py", 'ENUM = Keyword("enum") + Optional(Keyword("class") ^ Keyword("struct"))',
       'ENUM = Keyword("enum") ^ Keyword("enum class") ^ Keyword("enum struct")')),
    B("leave-whitespace", {"L2"},
      (IP + "tokens.py", "IDENT = Word(alphas + '_', alphanums + '_') ^ Word(nums)",
       "IDENT = (Word(alphas + '_', alphanums + '_') ^ Word(nums)).leaveWhitespace()")),
    B("only-line-comments-skipped", {"L1"},
      (IP + "module.py", "                       cppStyleComment, stringEnd)", "                       dblSlashComment, stringEnd)"),
      (IP + "module.py", "    rule.ignore(cppStyleComment)", "    rule.ignore(dblSlashComment)")),
    B("parse-on-unanchored-subrule", {"L3"},
      (MW, "parsed_result = parser.Module.parseString(content)",
       "parsed_result = parser.Namespace.rule.parseString(content)[0]")),
    B("verbatim-enumerator", {"L4"},
      (IP + "enum.py", "from pyparsing import delimitedList  # type: ignore",
       "from pyparsing import CharsNotIn, delimitedList  # type: ignore"),
      (IP + "enum.py", '        IDENT("enumerator")).setParseAction', '        CharsNotIn(",}")("enumerator")).setParseAction')),
    B("ignore-before-forward-defined", {"L1"},
      (IP + "module.py", "    rule.ignore(cppStyleComment)\n",
       "    rule.ignore(cppStyleComment)\n    late = Forward()\n    rule = rule + late\n    late << ZeroOrMore(Include.rule)\n"),
      (IP + "module.py", "from pyparsing import (ParseResults, ZeroOrMore,", "from pyparsing import (Forward, ParseResults, ZeroOrMore,"),
      accept_analysis_error=True),
    B("conditional-ignore", {"L1"},
      (IP + "module.py", "    rule.ignore(cppStyleComment)", "    if len(__name__) > 3:\n        rule.ignore(cppStyleComment)")),
    B("glued-scope-operator", {"L2"},
      (IP + "declaration.py", "CLASS + Typename.rule(\"name\")", "CLASS + Optional(Literal('gtsam::')) + Typename.rule(\"name\")"),
      (IP + "declaration.py", "from pyparsing import CharsNotIn, Optional  # type: ignore",
       "from pyparsing import CharsNotIn, Literal, Optional  # type: ignore")),
    N("ignore-after-class-body",
      (IP + "module.py", "    rule.ignore(cppStyleComment)\n", "    pass\n"),
      (IP + "module.py", '        return Module.rule.parseString(s)[0]\n',
       '        return Module.rule.parseString(s)[0]\n\n\nModule.rule.ignore(cppStyleComment)\n')),
    N("entry-through-root-rule",
      (MW, "parsed_result = parser.Module.parseString(content)",
       "parsed_result = parser.Module.rule.parseString(content)[0]")),
    N("comment-import-aliased",
      (IP + "module.py", "                       cppStyleComment, stringEnd)", "                       cppStyleComment as skipper, stringEnd)"),
      (IP + "module.py", "    rule.ignore(cppStyleComment)", "    rule.ignore(skipper)")),
    N("new-single-token-keyword",
      (IP + "tokens.py", 'NAMESPACE = Keyword("namespace")', 'NAMESPACE = Keyword("namespace") ^ Keyword("module")')),
]

TABLE["C19"] = [
    B("packrat-line-deleted", {"Z1"},
      (IP + "__init__.py", "pyparsing.ParserElement.enablePackrat()\n", "")),
    B("packrat-cache-zero", {"Z1"},
      (IP + "__init__.py", "pyparsing.ParserElement.enablePackrat()", "pyparsing.ParserElement.enablePackrat(0)")),
    B("packrat-conditional", {"Z1"},
      (IP + "__init__.py", "pyparsing.ParserElement.enablePackrat()",
       "if sys.version_info < (3, 12):\n    pyparsing.ParserElement.enablePackrat()")),
    B("memoization-disabled-in-generator", {"Z1"},
      (PW, "        module = parser.Module.parseString(content)",
       "        parser.pyparsing.ParserElement.disable_memoization()\n        module = parser.Module.parseString(content)")),
    B("nullable-repetition", {"Z3"},
      (IP + "classes.py", "        rule = ZeroOrMore(DunderMethod.rule  #", "        rule = ZeroOrMore(Optional(CONST) ^ DunderMethod.rule  #")),
    B("left-recursive-type", {"Z3"},
      (IP + "type.py", "    rule << (\n        Optional(CONST(\"is_const\"))  #\n        + Typename.rule(\"typename\")",
       "    rule << (\n        Optional(rule)  #\n        + Optional(CONST(\"is_const\"))  #\n        + Typename.rule(\"typename\")"),
      accept_analysis_error=True),
    B("cache-reset-per-parse", {"Z1"},
      (IP + "module.py", "        return Module.rule.parseString(s)[0]",
       "        Module.rule.resetCache()\n        return Module.rule.parseString(s)[0]"),
      accept_analysis_error=True),
    N("packrat-unbounded-cache",
      (IP + "__init__.py", "pyparsing.ParserElement.enablePackrat()",
       "pyparsing.ParserElement.enablePackrat(cache_size_limit=None)")),
    N("packrat-snake-case",
      (IP + "__init__.py", "pyparsing.ParserElement.enablePackrat()", "pyparsing.ParserElement.enable_packrat()")),
    N("packrat-in-tokens-module",
      (IP + "__init__.py", "pyparsing.ParserElement.enablePackrat()\n", ""),
      (IP + "tokens.py", "from pyparsing import Or  # type: ignore\n",
       "from pyparsing import Or, ParserElement  # type: ignore\n\nParserElement.enablePackrat()\n")),
]

TABLE["C07"] = [
    B("string-end-removed", {"V1"},
      (IP + "module.py", "setParseAction(lambda t: Namespace('', t.asList())) +\n        stringEnd)",
       "setParseAction(lambda t: Namespace('', t.asList())))")),
    B("parse-error-swallowed", {"V4"},
      (PW, "        module = parser.Module.parseString(content)\n",
       "        try:\n            module = parser.Module.parseString(content)\n        except Exception:\n"
       "            module = parser.Namespace('', [])\n")),
    B("output-opened-before-generation", {"V5"},
      (PW, "        cc_content = self.wrap_file(content,\n                                    module_name=self.module_name,\n"
           "                                    submodules=submodules)\n\n        # Generate the C++ code which Pybind11 will use.\n"
           "        with open(main_module_name, \"w\", encoding=\"UTF-8\") as f:\n            f.write(cc_content)",
       "        with open(main_module_name, \"w\", encoding=\"UTF-8\") as f:\n"
       "            f.write(self.wrap_file(content, module_name=self.module_name, submodules=submodules))")),
    B("matlab-files-written-before-mex-source-built", {"V5"},
      (MW, "            # Generate the wrapping code (both C++ and .m files)\n            self.generate_wrapper(module)\n\n"
           "            # Generate the corresponding .m and .cpp files\n            self.generate_content(self.content, path)\n",
       "            self.generate_content(self.content, path)\n            self.generate_wrapper(module)\n")),
    B("matlab-loop-may-repeat", {"V5"},
      (MW, "        for module in modules.values():\n            # Wrap the full namespace",
       "        for module in list(modules.values()) * 2:\n            # Wrap the full namespace")),
    B("ctor-name-check-removed", {"V6"},
      (IP + "classes.py", "                raise ValueError(\"Error in constructor name! {} != {}\".format(\n                    ctor.name, self.name))",
       "                pass")),
    B("default-order-assert-removed", {"V6"},
      (MW, "        assert all(arg.default is None for arg in method.args.list()), \\", "        _ = all(arg.default is None for arg in method.args.list()), \\")),
    B("unary-operator-check-removed", {"V6"},
      (IP + "classes.py", "        if self.is_unary and self.operator not in ('+', '-'):", "        if False:")),
    B("script-swallows-failure", {"V4"},
      ("scripts/matlab_wrap.py", "    cc_content = wrapper.wrap(sources, path=args.out)",
       "    try:\n        cc_content = wrapper.wrap(sources, path=args.out)\n    except Exception as e:\n        print(e)")),
    B("search-instead-of-parse", {"V1"},
      (IP + "module.py", "        return Module.rule.parseString(s)[0]", "        return Module.rule.searchString(s)[0][0]")),
    B("submodule-written-before-parse", {"V5"},
      (PW, "        cc_content = self.wrap_file(content, module_name=module_name)\n\n        # Generate the C++ code which Pybind11 will use.\n"
           "        with open(module_name + \".cpp\", \"w\", encoding=\"UTF-8\") as f:\n            f.write(cc_content)",
       "        with open(module_name + \".cpp\", \"w\", encoding=\"UTF-8\") as f:\n"
       "            f.write('// generated\\n')\n            f.write(self.wrap_file(content, module_name=module_name))")),
    B("bare-except-in-instantiation", {"V4"},
      (TI + "namespace.py", "            targets[id(element)] = top_level.find_class_or_function(\n                element.typename)",
       "            try:\n                targets[id(element)] = top_level.find_class_or_function(\n                    element.typename)\n"
       "            except:\n                continue")),
    N("handle-opened-through-local",
      (PW, "        with open(main_module_name, \"w\", encoding=\"UTF-8\") as f:\n            f.write(cc_content)",
       "        out = open(main_module_name, \"w\", encoding=\"UTF-8\")\n        with out as f:\n            f.write(cc_content)")),
    N("narrow-handler-around-parse",
      (PW, "        module = parser.Module.parseString(content)\n",
       "        try:\n            module = parser.Module.parseString(content)\n        except KeyError:\n            raise\n")),
    N("logging-handler-that-reraises",
      (PW, "        module = parser.Module.parseString(content)\n",
       "        try:\n            module = parser.Module.parseString(content)\n        except Exception as e:\n"
       "            print(e)\n            raise\n")),
    N("parse-all-instead-of-string-end",
      (IP + "module.py", "setParseAction(lambda t: Namespace('', t.asList())) +\n        stringEnd)",
       "setParseAction(lambda t: Namespace('', t.asList())))"),
      (IP + "module.py", "        return Module.rule.parseString(s)[0]", "        return Module.rule.parseString(s, parseAll=True)[0]")),
]

TABLE["C14"] = [
    B("includes-through-a-set", {"R2"},
      (MW, "        includes_list = sorted(self.includes,\n                               key=lambda include: include.header)",
       "        includes_list = set(self.includes)")),
    B("serializing-list-not-reset", {"R3"},
      (PW, "        self._serializing_classes = []\n        self._submodule_vars = []\n", "        self._submodule_vars = []\n")),
    B("submodule-vars-not-reset", {"R3"},
      (PW, "        self._serializing_classes = []\n        self._submodule_vars = []\n", "        self._serializing_classes = []\n")),
    B("docstring-memory-not-reset", {"R3"},
      (PW, "        # Reset the overload memory of the docstring extractor\n        self.xml_parser = XMLDocParser()\n", "")),
    B("log-file-nobody-asked-for", {"R4"},
      (PW, "        # Reset the serializing classes list and the declared submodules\n",
       "        with open(\"gtwrap.log\", \"a\") as log:\n            log.write(str(module_name))\n        # Reset the serializing classes list and the declared submodules\n")),
    B("submodule-output-by-str-replace", {"R4"},
      (PW, "        with open(module_name + \".cpp\", \"w\", encoding=\"UTF-8\") as f:",
       "        with open(Path(source).name.replace(\".i\", \".cpp\"), \"w\", encoding=\"UTF-8\") as f:")),
    B("timestamp-in-output", {"R1"},
      (PW, "import re\n", "import re\nimport time\n"),
      (PW, "        wrapped_namespace, includes = self.wrap_namespace(module)\n",
       "        wrapped_namespace, includes = self.wrap_namespace(module)\n        includes += \"// generated \" + time.ctime() + \"\\n\"\n")),
    B("module-name-from-environment", {"R1"},
      (PW, "import re\n", "import os\nimport re\n"),
      (PW, "        self.module_name = module_name\n", "        self.module_name = os.environ.get(\"GTWRAP_MODULE\", module_name)\n")),
    B("text-generated-while-file-open", {"R6"},
      (MW, "                with open(path_to_file, 'w', encoding=\"UTF-8\") as f:\n                    f.write(c[1])",
       "                with open(path_to_file, 'w', encoding=\"UTF-8\") as f:\n                    f.write(c[1])\n                    f.write('\\n')")),
    B("main-output-next-to-input", {"R4"},
      (PW, "        with open(main_module_name, \"w\", encoding=\"UTF-8\") as f:",
       "        with open(main_module + \".cpp\", \"w\", encoding=\"UTF-8\") as f:")),
    B("user-config-read", {"R1", "R5"},
      (MW, "        dir_path = osp.dirname(osp.realpath(__file__))\n",
       "        dir_path = osp.dirname(osp.realpath(__file__))\n        if osp.exists(osp.expanduser('~/.gtwraprc')):\n"
       "            with open(osp.expanduser('~/.gtwraprc')) as f:\n                self.verbose = bool(f.read())\n")),
    B("ids-from-object-identity", {"R1"},
      (MW, "    def _wrapper_name(self):\n        \"\"\"Determine the name of wrapper function.\"\"\"\n        return self.module_name + '_wrapper'",
       "    def _wrapper_name(self):\n        \"\"\"Determine the name of wrapper function.\"\"\"\n        return self.module_name + '_wrapper' + str(id(self) % 2 or '')")),
    N("sort-key-rewritten",
      (MW, "key=lambda include: include.header)", "key=lambda inc: str(inc.header))")),
    N("membership-set",
      (PW, "            if function_name in python_keywords:", "            if function_name in set(python_keywords):")),
    N("reset-with-clear",
      (PW, "        self._serializing_classes = []\n        self._submodule_vars = []\n", "        self._serializing_classes.clear()\n        self._submodule_vars.clear()\n")),
    N("pathlib-write-text",
      (PW, "        with open(main_module_name, \"w\", encoding=\"UTF-8\") as f:\n            f.write(cc_content)",
       "        Path(main_module_name).write_text(cc_content, encoding=\"UTF-8\")")),
    N("submodule-output-fstring",
      (PW, "        with open(module_name + \".cpp\", \"w\", encoding=\"UTF-8\") as f:",
       "        with open(f\"{Path(source).stem}.cpp\", \"w\", encoding=\"UTF-8\") as f:")),
]

H = "matlab.h"
TABLE["C18"] = [
    B("matrix-loop-nest-swapped", {"K5"},
      (H, "  for (int j=0;j<n;j++) for (int i=0;i<m;i++,data++) *data = A(i,j);",
       "  for (int i=0;i<m;i++) for (int j=0;j<n;j++,data++) *data = A(i,j);")),
    B("matrix-created-transposed", {"K5"},
      (H, "  mxArray *result = mxCreateDoubleMatrix(m, n, mxREAL);", "  mxArray *result = mxCreateDoubleMatrix(n, m, mxREAL);")),
    B("size_t-read-through-int", {"K2"},
      (H, "  return myGetScalar<size_t>(array);", "  return myGetScalar<int>(array);")),
    B("double-read-unchecked", {"K2"},
      (H, "  checkScalar(array,\"unwrap<double>\");\n", "")),
    B("size_t-written-into-32-bit-array", {"K3"},
      (H, "  mxArray *result = scalar(mxUINT32OR64_CLASS);\n  *(size_t*)mxGetData(result) = value;",
       "  mxArray *result = scalar(mxUINT32_CLASS);\n  *(size_t*)mxGetData(result) = value;")),
    B("unwrap-unsigned-char-removed", {"K1"},
      (H, "// specialization to unsigned char\ntemplate<>\nunsigned char unwrap<unsigned char>(const mxArray* array) {\n"
          "  checkScalar(array,\"unwrap<unsigned char>\");\n  return myGetScalar<unsigned char>(array);\n}\n", "")),
    B("matrix-guard-removed", {"K4"},
      (H, "  if (mxIsDouble(array)==false) error(\"unwrap<matrix>: not a matrix\");\n", "")),
    B("vector-column-check-dropped", {"K10"},
      (H, "  if (mxIsDouble(array)==false || n!=1) error(\"unwrap<vector>: not a vector\");",
       "  if (mxIsDouble(array)==false) error(\"unwrap<vector>: not a vector\");", 0)),
    B("guard-after-data-pointer", {"K4"},
      (H, "  if (mxIsDouble(array)==false) error(\"unwrap<matrix>: not a matrix\");\n  int m = mxGetM(array), n = mxGetN(array);\n",
       "  int m = mxGetM(array), n = mxGetN(array);\n  double* early = (double*)mxGetData(array);\n"
       "  if (mxIsDouble(array)==false) error(\"unwrap<matrix>: not a matrix\");\n")),
    B("error-only-prints", {"K6"},
      (H, "  mexErrMsgIdAndTxt(\"wrap:error\", str);", "  mexPrintf(\"%s\", str);")),
    B("check-scalar-needs-both-dims-wrong", {"K6"},
      (H, "  if (m!=1 || n!=1)", "  if (m!=1 && n!=1)")),
    B("unwrap-ptr-reads-array-storage", {"K7"},
      (H, "  std::shared_ptr<Class>* spp = *reinterpret_cast<std::shared_ptr<Class>**> (mxGetData(mxh));\n  return spp->get();",
       "  Class* x = reinterpret_cast<Class*> (mxGetData(mxh));\n  return x;")),
    B("shared-ptr-returned-by-reference", {"K7"},
      (H, "std::shared_ptr<Class> unwrap_shared_ptr(const mxArray* obj, const string& propertyName) {",
       "std::shared_ptr<Class>& unwrap_shared_ptr(const mxArray* obj, const string& propertyName) {")),
    B("input-array-leaked", {"K7"},
      (H, "  mxDestroyArray(input[1]);\n", "")),
    B("handle-validation-removed", {"K7"},
      (H, "  if (mxGetClassID(mxh) != mxUINT32OR64_CLASS || mxIsComplex(mxh)\n    || mxGetM(mxh) != 1 || mxGetN(mxh) != 1) error(\n    \"Parameter is not an Shared type.\");\n", "")),
    N("pointer-variable-renamed",
      (H, "  double *data = mxGetPr(result);\n  // converts from column-major to row-major\n"
          "  for (int j=0;j<n;j++) for (int i=0;i<m;i++,data++) *data = A(i,j);",
       "  double *p = mxGetPr(result);\n  for (int j=0;j<n;j++) for (int i=0;i<m;i++,p++) *p = A(i,j);")),
    N("braces-and-increment-in-body",
      (H, "  for (int j=0;j<n;j++) for (int i=0;i<m;i++,data++) *data = A(i,j);",
       "  for (int j=0;j<n;j++) {\n    for (int i=0;i<m;i++) {\n      *data = A(i,j);\n      data++;\n    }\n  }")),
    N("static-cast-store",
      (H, "  *(char*)mxGetData(result) = value;", "  *static_cast<char*>(mxGetData(result)) = value;")),
    N("error-through-msgtxt",
      (H, "  mexErrMsgIdAndTxt(\"wrap:error\", str);", "  mexErrMsgTxt(str);")),
]

TABLE["C01"] += [
    B("default-text-normalised", {"F1"},
      (IP + "tokens.py", "CONST, VIRTUAL, CLASS, STATIC, PAIR, TEMPLATE, TYPEDEF, INCLUDE = map(",
       "DEFAULT_ARG.addParseAction(lambda t: \" \".join(t[0].split()))\nCONST, VIRTUAL, CLASS, STATIC, PAIR, TEMPLATE, TYPEDEF, INCLUDE = map(")),
    B("namespaces-accessor-cached", {"G8"},
      (IP + "classes.py", "        return collect_namespaces(self)\n\n    def __repr__(self):\n        return \"Class: {self.name}\".format(self=self)",
       "        if not hasattr(self, '_ns'):\n            self._ns = collect_namespaces(self)\n        return self._ns\n\n"
       "    def __repr__(self):\n        return \"Class: {self.name}\".format(self=self)")),
    N("default-text-identity-action",
      (IP + "tokens.py", "CONST, VIRTUAL, CLASS, STATIC, PAIR, TEMPLATE, TYPEDEF, INCLUDE = map(",
       "DEFAULT_ARG.addParseAction(lambda t: t[0].strip())\nCONST, VIRTUAL, CLASS, STATIC, PAIR, TEMPLATE, TYPEDEF, INCLUDE = map(")),
    N("namespaces-accessor-copies-cache",
      (IP + "classes.py", "        return collect_namespaces(self)\n\n    def __repr__(self):\n        return \"Class: {self.name}\".format(self=self)",
       "        if not hasattr(self, '_ns'):\n            self._ns = collect_namespaces(self)\n        return list(self._ns)\n\n"
       "    def __repr__(self):\n        return \"Class: {self.name}\".format(self=self)")),
]
TABLE["C07"] += [
    B("ctor-name-check-only-for-plain-classes", {"V6"},
      (IP + "classes.py", "        for ctor in self.ctors:\n            if ctor.name != self.name:\n                raise ValueError(\"Error in constructor name! {} != {}\".format(\n                    ctor.name, self.name))",
       "        for ctor in (self.ctors if not self.template else []):\n            if ctor.name != self.name:\n                raise ValueError(\"Error in constructor name! {} != {}\".format(\n                    ctor.name, self.name))"),
      accept_analysis_error=True),
]
TABLE["C14"] += [
    B("class-level-parse-cache", {"R3"},
      (XP, "    def __init__(self):\n        # Memory for overloaded", "    _trees = {}\n\n    def __init__(self):\n        # Memory for overloaded"),
      (XP, "        try:\n            return ET.parse(xml_file)", "        if str(xml_file) in self._trees:\n            return self._trees[str(xml_file)]\n        try:\n            self._trees[str(xml_file)] = ET.parse(xml_file)\n            return self._trees[str(xml_file)]")),
]
TABLE["C12"] += [
    B("helper-built-verbatim-terminal", {"L4"},
      (IP + "tokens.py", "BASIC_TYPES = [", "def glued(*ws):\n    r = Keyword(ws[0])\n    for w in ws[1:]:\n        r = r + Keyword(w)\n    return originalTextFor(r)\n\n\nBASIC_TYPES = [glued(\"long\", \"long\"), ")),
    N("helper-built-transparent-terminal",
      (IP + "tokens.py", "BASIC_TYPES = [", "def words(*ws):\n    r = Keyword(ws[0])\n    for w in ws[1:]:\n        r = r + Keyword(w)\n    return Combine(r, joinString=\" \", adjacent=False)\n\n\nBASIC_TYPES = [words(\"long\", \"long\"), ")),
]

HP = TI + "helpers.py"
TABLE["C02"] = [
    B("static-return-type-uninstantiated", {"S1"},
      (TI + "method.py", "            return_type=instantiate_return_type(original.return_type,\n"
       "                                                typenames,\n                                                class_instantiations +\n"
       "                                                method_instantiations,\n                                                parent.cpp_typename(),\n"
       "                                                instantiated_class=parent),",
       "            return_type=original.return_type,")),
    B("second-return-type-dropped", {"S1"},
      (HP, "        new_type2 = instantiate_type(return_type.type2,\n                                     template_typenames,\n"
       "                                     instantiations,\n                                     cpp_typename,\n"
       "                                     instantiated_class=instantiated_class)", "        new_type2 = return_type.type2")),
    B("ref-flag-from-ptr-flag", {"S4"},
      (HP, "            is_ref=ctype.is_ref,", "            is_ref=ctype.is_ptr,", 1)),
    B("const-flag-dropped-on-exact-match", {"S4"},
      (HP, "            is_const=ctype.is_const,", "            is_const='',", 1)),
    B("nested-arguments-first-level-only", {"S2"},
      (HP, "            else:\n                instantiate_template_args(instantiation)\n", "")),
    B("scoped-parameter-by-str-replace", {"S3"},
      (HP, "        instantiation.name = \"::\".join(\n            instantiation.name if part == scoped_template else part\n            for part in str_arg_typename.split(\"::\"))",
       "        instantiation.name = str_arg_typename.replace(scoped_template, instantiation.name)")),
    B("dunder-methods-passed-through", {"S1"},
      (TI + "classes.py", "        self.dunder_methods = self.instantiate_dunder_methods(typenames)", "        self.dunder_methods = original.dunder_methods")),
    B("operator-arguments-uninstantiated", {"S1"},
      (TI + "classes.py", "                    args=parser.ArgumentList(instantiated_args),\n                    is_const=operator.is_const,",
       "                    args=operator.args,\n                    is_const=operator.is_const,")),
    B("argument-default-lost", {"S5"},
      (HP, "            parser.Argument(name=arg.name, ctype=new_type,\n                            default=arg.default))",
       "            parser.Argument(name=arg.name, ctype=new_type,\n                            default=None))")),
    B("instantiation-lists-swapped", {"S1"},
      (TI + "method.py", "                class_instantiations + method_instantiations,\n                parent.cpp_typename()),",
       "                method_instantiations + class_instantiations,\n                parent.cpp_typename()),")),
    B("this-by-prefix", {"S6"},
      (HP, "    elif str_arg_typename == 'This':", "    elif str_arg_typename.startswith('This'):")),
    B("properties-passed-through", {"S1"},
      (TI + "classes.py", "        instantiated_ = instantiate_args_list(\n            self.original.properties,\n            typenames,\n"
       "            self.instantiations,\n            self.cpp_typename(),\n        )", "        instantiated_ = self.original.properties")),
    B("function-args-uninstantiated", {"S1"},
      (TI + "function.py", "            self.args = parser.ArgumentList(instantiated_args)", "            self.args = original.args")),
    N("return-type-through-local",
      (TI + "method.py", "        method = parser.Method(\n            template=original.template,\n            name=original.name,\n            return_type=instantiate_return_type(\n"
       "                original.return_type, typenames,\n                class_instantiations + method_instantiations,\n                parent.cpp_typename()),",
       "        rt = instantiate_return_type(\n                original.return_type, typenames,\n                class_instantiations + method_instantiations,\n"
       "                parent.cpp_typename())\n        method = parser.Method(\n            template=original.template,\n            name=original.name,\n            return_type=rt,")),
    N("properties-loop-instead-of-comprehension",
      (TI + "classes.py", "        instantiated_properties = [\n            parser.Variable(ctype=[arg.ctype],\n                            name=arg.name,\n"
       "                            default=arg.default) for arg in instantiated_\n        ]",
       "        instantiated_properties = []\n        for arg in instantiated_:\n            instantiated_properties.append(\n"
       "                parser.Variable(ctype=[arg.ctype], name=arg.name, default=arg.default))")),
    N("component-test-by-equality-helper",
      (HP, "            instantiation.name if part == scoped_template else part", "            (instantiation.name if scoped_template == part else part)")),
]

TABLE["C08"] = [
    B("instantiation-lists-sorted", {"N1"},
      (TI + "namespace.py", "                for instantiations in itertools.product(\n                        *original_class.template.instantiations):",
       "                for instantiations in itertools.product(\n                        *sorted(original_class.template.instantiations, key=len)):")),
    B("product-tuple-reversed", {"N1"},
      (TI + "namespace.py", "                        InstantiatedClass(original_class,\n                                          list(instantiations)))",
       "                        InstantiatedClass(original_class,\n                                          list(reversed(instantiations))))")),
    B("member-product-skips-first", {"N1"},
      (HP, "                for instantiations in itertools.product(\n                        *method.template.instantiations):",
       "                for instantiations in itertools.product(\n                        *method.template.instantiations[1:]):")),
    B("function-typedef-name-dropped", {"N2"},
      (TI + "namespace.py", "                        original_element, typedef_inst.typename.instantiations,\n                        typedef_inst.new_name))",
       "                        original_element, typedef_inst.typename.instantiations))", 0)),
    B("typedef-looked-up-locally", {"N2"},
      (TI + "namespace.py", "            top_level = namespace.top_level()", "            top_level = namespace")),
    B("content-regrouped-by-kind", {"N3"},
      (TI + "namespace.py", "    for element in namespace.content:", "    for element in sorted(namespace.content, key=lambda e: type(e).__name__):", 1)),
    B("plain-declarations-dropped", {"N3"},
      (TI + "namespace.py", "        else:\n            instantiated_content.append(element)\n\n    instantiated_content.extend(typedef_content)",
       "        else:\n            pass\n\n    instantiated_content.extend(typedef_content)")),
    B("typedefs-prepended", {"N3"},
      (TI + "namespace.py", "    instantiated_content.extend(typedef_content)", "    instantiated_content = typedef_content + instantiated_content")),
    B("method-name-without-helper", {"N4"},
      (TI + "method.py", "        self.name = instantiate_name(original.name, self.instantiations)",
       "        self.name = original.name + \"\".join(i.name for i in self.instantiations)", 0)),
    B("capitalise-every-occurrence", {"N5"},
      (HP, "        instantiated_names.append(name[0].capitalize() + name[1:])",
       "        instantiated_names.append(name.replace(name[0], name[0].capitalize()))")),
    B("class-constructor-ignores-typedef-name", {"N2"},
      (TI + "classes.py", "        self.name = instantiate_name(\n            original.name, instantiations) if not new_name else new_name",
       "        self.name = instantiate_name(\n            original.name, instantiations)")),
    N("typedef-name-by-keyword",
      (TI + "namespace.py", "                    InstantiatedClass(original_element,\n                                      typedef_inst.typename.instantiations,\n                                      typedef_inst.new_name))",
       "                    InstantiatedClass(original_element,\n                                      typedef_inst.typename.instantiations,\n                                      new_name=typedef_inst.new_name))")),
    N("product-tuple-unpacked-into-list",
      (TI + "namespace.py", "                        InstantiatedClass(original_class,\n                                          list(instantiations)))",
       "                        InstantiatedClass(original_class,\n                                          [*instantiations]))")),
    N("capitalise-with-upper",
      (HP, "        instantiated_names.append(name[0].capitalize() + name[1:])", "        instantiated_names.append(name[0].upper() + name[1:])")),
]

TABLE["C13"] = [
    B("deepcopy-of-type-removed", {"P1"},
      (HP, "    ctype = deepcopy(ctype)\n", "")),
    B("typename-list-shared", {"P1"},
      (HP, "            method_typenames = deepcopy(typenames)", "            method_typenames = typenames")),
    B("scoped-instantiation-not-copied", {"P1"},
      (HP, "        instantiation = deepcopy(instantiations[scoped_idx])", "        instantiation = instantiations[scoped_idx]")),
    B("parameter-spelling-in-name", {"P3"},
      (TI + "function.py", "            self.name = instantiate_name(\n                original.name, instantiations) if not new_name else new_name",
       "            self.name = \"_\".join(self.original.template.typenames) + instantiate_name(\n                original.name, instantiations) if not new_name else new_name")),
    B("parameter-named-T-special-cased", {"P3"},
      (HP, "        if \"::\" in str_arg_typename and \\\n", "        if template != \"T\" and \"::\" in str_arg_typename and \\\n")),
    B("module-level-memo", {"P4"},
      (HP, "def is_scoped_template(", "_SEEN = {}\n\n\ndef is_scoped_template("),
      (HP, "    str_arg_typename = str(ctype.typename)\n", "    str_arg_typename = str(ctype.typename)\n    _SEEN[str_arg_typename] = True\n")),
    B("dunder-methods-shared-between-instantiations", {"P2"},
      (TI + "classes.py", "        self.dunder_methods = self.instantiate_dunder_methods(typenames)", "        self.dunder_methods = original.dunder_methods")),
    B("this-branch-mutates-cpp-typename", {"P1"},
      (HP, "            ctype.typename.namespaces[namespace_idx] = cpp_typename.name",
       "            cpp_typename.namespaces.append(cpp_typename.name)\n            ctype.typename.namespaces[namespace_idx] = cpp_typename.name")),
    N("copy-module-deepcopy",
      (HP, "import itertools\nfrom copy import deepcopy\n", "import copy\nimport itertools\nfrom copy import deepcopy\n"),
      (HP, "    ctype = deepcopy(ctype)\n", "    ctype = copy.deepcopy(ctype)\n")),
    N("typename-list-copied-with-list",
      (HP, "            method_typenames = deepcopy(typenames)", "            method_typenames = list(typenames)")),
]

TABLE["C02"] += [
    B("concrete-type-grafted-field-by-field", {"S1"},
      (HP, "                instantiation.name = instantiations[template_idx]\n",
       "                concrete = instantiations[template_idx]\n                instantiation.namespaces = instantiation.namespaces + concrete.namespaces\n"
       "                instantiation.name = concrete.name\n")),
    B("arguments-carried-to-next-combination", {"S1"},
      (HP, "                        method_instantiations=list(instantiations),\n                        parent=parent)\n",
       "                        method_instantiations=list(instantiations) if not instantiated_methods else last,\n                        parent=parent)\n"
       "                    last = list(instantiations)\n")),
    B("scoped-test-by-substring", {"S3"},
      (HP, "            template in str_arg_typename.split(\"::\"):", "            template + \"::\" in str_arg_typename:")),
]
TABLE["C13"] += [
    B("scoped-test-by-substring", {"P3"},
      (HP, "            template in str_arg_typename.split(\"::\"):", "            template + \"::\" in str_arg_typename:")),
    B("deepcopy-only-for-templated-types", {"P1"},
      (HP, "    ctype = deepcopy(ctype)\n", "    if ctype.typename.instantiations:\n        ctype = deepcopy(ctype)\n")),
]
TABLE["C08"] += [
    B("typedef-target-from-local-cache", {"N2"},
      (TI + "namespace.py", "            original_element = typedef_targets[id(typedef_inst)]\n",
       "            original_element = typedef_targets[id(typedef_inst)]\n"
       "            if typedef_inst.typename.name in {e.name: e for e in namespace.content if hasattr(e, 'name')}:\n"
       "                original_element = {e.name: e for e in namespace.content if hasattr(e, 'name')}[typedef_inst.typename.name]")),
    B("handwritten-product-wrong-nesting", {"N1"},
      (HP, "class InstantiationHelper:", "def combos(template):\n    acc = [[]]\n    for choices in template.instantiations:\n"
       "        acc = [p + [c] for c in choices for p in acc]\n    return acc\n\n\nclass InstantiationHelper:"),
      (HP, "                for instantiations in itertools.product(\n                        *method.template.instantiations):",
       "                for instantiations in combos(method.template):")),
    N("handwritten-product-right-nesting",
      (HP, "class InstantiationHelper:", "def combos(template):\n    acc = [[]]\n    for choices in template.instantiations:\n"
       "        acc = [p + [c] for p in acc for c in choices]\n    return acc\n\n\nclass InstantiationHelper:"),
      (HP, "                for instantiations in itertools.product(\n                        *method.template.instantiations):",
       "                for instantiations in combos(method.template):")),
    N("statement-before-dispatch-chain",
      (TI + "namespace.py", "    for element in namespace.content:\n", "    for element in namespace.content:\n        if element is None:\n            continue\n", 1)),
]
TABLE["C18"] += [
    B("check-scalar-accepts-empty", {"K6"},
      (H, "  int m = mxGetM(array), n = mxGetN(array);\n  if (m!=1 || n!=1)", "  if (mxGetNumberOfElements(array) > 1)")),
    B("virtual-handle-heap-allocated", {"K7"},
      (H, "    std::shared_ptr<void> void_ptr(shared_ptr);\n    result = create_object(matlabName, &void_ptr, isVirtual, typeid(*shared_ptr).name());",
       "    std::shared_ptr<void> *void_ptr = new std::shared_ptr<void>(shared_ptr);\n    result = create_object(matlabName, void_ptr, isVirtual, typeid(*shared_ptr).name());")),
    N("check-scalar-by-numel",
      (H, "  int m = mxGetM(array), n = mxGetN(array);\n  if (m!=1 || n!=1)", "  if (mxGetNumberOfElements(array) != 1)")),
]

TABLE["C04"] = [
    B("py-args-drop-last", {"B1"},
      (PW, "            for arg in args.list():\n                if arg.default is not None:", "            for arg in args.list()[:-1]:\n                if arg.default is not None:")),
    B("call-arguments-reversed", {"B1"},
      (PW, "                             args_names=', '.join(args_names),\n                         ))\n\n        ret = ('{prefix}.{cdef}(\"{py_method}\",'",
       "                             args_names=', '.join(reversed(args_names)),\n                         ))\n\n        ret = ('{prefix}.{cdef}(\"{py_method}\",'")),
    B("signature-from-other-list", {"B1"},
      (PW, "        args_signature_with_names = self._method_args_signature(method.args)\n\n        # Special handling for the serialize",
       "        args_signature_with_names = self._method_args_signature(method.original.args)\n\n        # Special handling for the serialize")),
    B("defaults-skipped-in-py-args", {"B1", "B2"},
      (PW, "                if arg.default is not None:\n                    default = ' = {arg.default}'.format(arg=arg)",
       "                if arg.default is not None:\n                    continue\n                    default = ' = {arg.default}'.format(arg=arg)")),
    B("default-from-first-argument", {"B2"},
      (PW, "                    default = ' = {arg.default}'.format(arg=arg)", "                    default = ' = {arg.default}'.format(arg=args.list()[0])")),
    B("static-methods-called-on-self", {"B3"},
      (PW, "        caller = cpp_class + \"::\" if not is_method else \"self->\"", "        caller = cpp_class + \"::\" if is_static and not args_names else \"self->\"")),
    B("def-static-for-everything-not-method", {"B3"},
      (PW, "                   cdef=\"def_static\" if is_static else \"def\",\n                   py_method=py_method,", "                   cdef=\"def\",\n                   py_method=py_method,")),
    B("return-dropped-for-functions", {"B4"},
      (PW, "                                 opt_return='return'\n                                 if not return_void else '',", "                                 opt_return='',")),
    B("void-pair-treated-as-void", {"B4"},
      (IP + "function.py", "        return self.type1.typename.name == \"void\" and not self.type2", "        return self.type1.typename.name == \"void\"")),
    B("const-properties-writable", {"B5"},
      (PW, "                        property=\"readonly\"\n                        if prop.ctype.is_const else \"readwrite\",", "                        property=\"readwrite\",")),
    B("enumerator-bound-to-first-value", {"B6"},
      (PW, "            res += '\\n{prefix}    .value(\"{enumerator.name}\", {cpp_class}::{enumerator.name})'.format(\n                prefix=prefix, enumerator=enumerator, cpp_class=cpp_class)",
       "            res += '\\n{prefix}    .value(\"{enumerator.name}\", {cpp_class}::{first.name})'.format(\n                prefix=prefix, enumerator=enumerator, first=enum.enumerators[0], cpp_class=cpp_class)")),
    B("callee-without-template-arguments", {"B6"},
      (PW, "        cpp_method = method.to_cpp()", "        cpp_method = method.name")),
    B("unary-operator-emitted-as-binary", {"B7"},
      (PW, "            elif op.is_unary:\n                res += template.format(\"{0}py::self\".format(op.operator))",
       "            elif op.is_unary:\n                res += template.format(\"py::self {0} py::self\".format(op.operator))")),
    B("functions-qualified-relative-to-top", {"B6"},
      (PW, "                self._add_namespaces('', namespaces)[:-2],", "                self._add_namespaces('', namespaces[len(self.top_module_namespaces):])[:-2],")),
    N("method-template-as-fstring-pieces",
      (PW, "                        property=\"readonly\"\n                        if prop.ctype.is_const else \"readwrite\",", "                        property=(\"readonly\" if prop.ctype.is_const else \"readwrite\"),")),
    N("names-inlined",
      (PW, "                             args_names=', '.join(args_names),\n                         ))\n\n        ret = ('{prefix}.{cdef}(\"{py_method}\",'",
       "                             args_names=', '.join(method.args.names()),\n                         ))\n\n        ret = ('{prefix}.{cdef}(\"{py_method}\",'")),
]

TABLE["C09"] = [
    B("namespace-prefix-before-initialiser", {"W3"},
      (PW, "            # The initialiser is an expression, not a name inside `namespace`.\n            namespace = \"\"\n", "")),
    B("unbalanced-class-template", {"W2"},
      (PW, "                'std::shared_ptr<{cpp_class}>>({module_var}, \"{class_name}\")'\n            ).format(", "                'std::shared_ptr<{cpp_class}>>({module_var}, \"{class_name}\"'\n            ).format(")),
    B("placeholder-without-value", {"W1"},
      (PW, "                   py_args_names=py_args_names,\n                   suffix=suffix,\n                   # Try to get", "                   suffix=suffix,\n                   # Try to get")),
    B("fragment-computed-but-dropped", {"W1"},
      (PW, "               '}}'\n               '{py_args_names}{docstring}){suffix}'.format(", "               '}}'\n               '{docstring}){suffix}'.format(")),
    B("module-template-key-renamed", {"W1"},
      (PW, "            boost_class_export=boost_class_export,\n            submodules=", "            boost_export=boost_class_export,\n            submodules=")),
    B("lambda-missing-closing-brace", {"W2"},
      (PW, "                   '[]({args_signature}){{'\n                   '{function_call}'\n                   '}}'", "                   '[]({args_signature}){{'\n                   '{function_call}'")),
    N("template-split-differently",
      (PW, "        res = ('\\n    py::class_<{cpp_class}, '\n               'std::shared_ptr<{cpp_class}>>({module_var}, \"{class_name}\");'",
       "        res = ('\\n    py::class_<{cpp_class}, std::shared_ptr<{cpp_class}>>'\n               '({module_var}, \"{class_name}\");'")),
]

TABLE["C03"] = [
    B("variables-not-dispatched", {"A1"},
      (PW, "                elif isinstance(element, parser.Variable):\n                    variable_namespace", "                elif False:\n                    variable_namespace")),
    B("operators-not-emitted", {"A2"},
      (PW, "                '{wrapped_properties}'\n                '{wrapped_operators};\\n'.format(", "                '{wrapped_properties}'\n                ';\\n'.format("),
      (PW, "                    wrapped_operators=self.wrap_operators(\n                        instantiated_class.operators, cpp_class)))", "                    ))")),
    B("filter-after-first-emission", {"A3"},
      (PW, "        if not self._partial_match(namespaces, self.top_module_namespaces):\n            return \"\", \"\"\n", "")),
    B("prefix-test-stops-early", {"A3"},
      (PW, "        for i in range(min(len(namespaces1), len(namespaces2))):", "        for i in range(min(len(namespaces1), len(namespaces2)) - 1):")),
    B("module-var-sliced-at-one", {"A7"},
      (PW, "        sub_module_namespaces = namespaces[len(self.top_module_namespaces):]", "        sub_module_namespaces = namespaces[1:]")),
    B("depth-compared-with-constant", {"A7"},
      (PW, "            if len(namespaces) > len(self.top_module_namespaces) \\\n", "            if len(namespaces) > 1 \\\n")),
    B("submodule-declared-on-every-visit", {"A4"},
      (PW, "            if len(namespaces) > len(self.top_module_namespaces) \\\n                    and module_var not in self._submodule_vars:",
       "            if len(namespaces) > len(self.top_module_namespaces):")),
    B("enums-of-ignored-class-emitted", {"A5"},
      (PW, "                    if wrapped_class:\n                        wrapped += self.wrap_enums(element.enums, element)", "                    wrapped += self.wrap_enums(element.enums, element)")),
    B("keywords-escaped-for-methods-only", {"A6"},
      (PW, "        if py_method in self.python_keywords:\n            py_method = py_method + \"_\"\n\n        is_method = isinstance(\n            method, (parser.Method, instantiator.InstantiatedMethod))",
       "        is_method = isinstance(\n            method, (parser.Method, instantiator.InstantiatedMethod))\n        if is_method and py_method in self.python_keywords:\n            py_method = py_method + \"_\"\n")),
    B("async-await-not-escaped", {"A6"},
      (PW, "            'continue', 'global', 'pass', 'async', 'await'", "            'continue', 'global', 'pass'")),
    B("ignore-test-on-python-name", {"A5"},
      (PW, "        cpp_class = instantiated_class.to_cpp()\n        if cpp_class in self.ignore_classes:", "        cpp_class = instantiated_class.to_cpp()\n        if instantiated_class.name in self.ignore_classes:")),
    N("dispatch-order-changed",
      (PW, "                elif isinstance(element, parser.Enum):\n                    wrapped += self.wrap_enum(element)\n", "                elif isinstance(element, parser.Enum):\n                    enum_text = self.wrap_enum(element)\n                    wrapped += enum_text\n")),
    B("keyword-list-extended", {"A6"},      # `match` / `case` are soft keywords: `obj.match()` is plain Python, the binding must keep the declared name
      (PW, "            'continue', 'global', 'pass', 'async', 'await'", "            'continue', 'global', 'pass', 'async', 'await', 'match', 'case'")),
]

TABLE["C05"] = [
    B("virtual-placeholder-off-by-one", {"I4"},
      (MW, "                        id=self._update_wrapper_id() + 1),", "                        id=self._update_wrapper_id()),")),
    B("mex-cases-stop-one-short", {"I5"},
      (MW, "        for wrapper_id in range(self.wrapper_id):\n            id_val = self.wrapper_map.get(wrapper_id)\n            set_next_case = False",
       "        for wrapper_id in range(self.wrapper_id - 1):\n            id_val = self.wrapper_map.get(wrapper_id)\n            set_next_case = False")),
    B("upcast-case-name-off-by-one", {"I5"},
      (MW, "                    id_val[1].name, wrapper_id + 1)", "                    id_val[1].name, wrapper_id)")),
    B("upcast-routine-emitted-one-round-early", {"I5"},
      (MW, "            if queue_set_next_case:", "            if set_next_case:")),
    B("allocator-returns-post-increment", {"I2"},
      (MW, "        return self.wrapper_id - 1", "        return self.wrapper_id")),
    B("allocator-registers-next-id", {"I2"},
      (MW, "            self.wrapper_map[self.wrapper_id] = (", "            self.wrapper_map[self.wrapper_id + 1] = (")),
    B("second-writer-of-counter", {"I1"},
      (MW, "        ptr_ctor_frag = ''\n        set_next_case = False\n", "        ptr_ctor_frag = ''\n        set_next_case = False\n        self.wrapper_id = len(self.wrapper_map)\n")),
    B("collector-name-always-shifted", {"I4"},
      (MW, "            id_diff=-1 if is_virtual else 0)", "            id_diff=-1)")),
    B("id-not-first-gateway-argument", {"I3"},
      (MW, "                          {check_statement}{spacing}{varargout}{wrapper}({num}, this, varargin{{:}});", "                          {check_statement}{spacing}{varargout}{wrapper}(this, {num}, varargin{{:}});")),
    B("role-tag-read-from-user-name-slot", {"I6"},
      (MW, "            elif role == 'constructor':", "            elif collector_func[2] == 'constructor':")),
    B("getter-by-substring", {"I6"},
      (MW, "                if method_name.startswith(class_name + \"_get_\"):", "                if \"_get_\" in method_name:")),
    B("method-ids-shifted", {"I4"},
      (MW, "                             overload.original.name, overload)),", "                             overload.original.name, overload), id_diff=1),")),
    B("id-allocated-but-text-conditional", {"I3"},
      (MW, "        wrapper_id = self._update_wrapper_id(\n            (namespace_name, inst_class, 'string_serialize', 'serialize'))\n\n        return WrapperTemplate.class_serialize_method.format(",
       "        wrapper_id = self._update_wrapper_id(\n            (namespace_name, inst_class, 'string_serialize', 'serialize'))\n        if not class_name:\n            return ''\n\n        return WrapperTemplate.class_serialize_method.format("),
      accept_analysis_error=True),
    N("id-local-renamed",
      (MW, "        collector_base_id = self._update_wrapper_id(", "        base_id = self._update_wrapper_id("),
      (MW, "            id=collector_base_id - (1 if is_virtual else 0))", "            id=base_id - (1 if is_virtual else 0))")),
    N("case-callee-ifexp-flipped",
      (MW, "                ''').format(wrapper_id, next_case if next_case else id_val[3]),", "                ''').format(wrapper_id, id_val[3] if not next_case else next_case),")),
]

TABLE["C19"] += [
    B("two-recursive-alternatives-same-prefix", {"Z4"},
      (IP + "type.py", "            + delimitedList(Type.rule ^ rule, \",\")(\"template_params\")  #",
       "            + delimitedList(Type.rule ^ rule ^ (rule + CONST), \",\")(\"template_params\")  #")),
    N("two-recursive-alternatives-unbounded-memo",
      (IP + "type.py", "            + delimitedList(Type.rule ^ rule, \",\")(\"template_params\")  #",
       "            + delimitedList(Type.rule ^ rule ^ (rule + CONST), \",\")(\"template_params\")  #"),
      (IP + "__init__.py", "pyparsing.ParserElement.enablePackrat()", "pyparsing.ParserElement.enablePackrat(None)")),
]

TABLE["C15"] = [
    B("matlab-ignore-keys-differ", {"X1"},
      (MW, "        uninstantiated_name = \"::\".join(instantiated_class.namespaces()[1:] +\n                                        [instantiated_class.name])",
       "        uninstantiated_name = \"::\".join(instantiated_class.namespaces()\n                                        [1:]) + \"::\" + instantiated_class.name")),
    B("pybind-declaration-ignored-by-python-name", {"X1", "X2"},
      (PW, "        cpp_class = instantiated_decl.to_cpp()\n        if cpp_class in self.ignore_classes:", "        cpp_class = instantiated_decl.to_cpp()\n        if instantiated_decl.name in self.ignore_classes:")),
    B("none-result-subscripted", {"X3"},
      (MW, "                    if not class_text is None:\n                        top_level_scope.append((class_text[0], class_text[1]))", "                    top_level_scope.append((class_text[0], class_text[1]))")),
    B("ids-allocated-before-ignore-test", {"X2"},
      (MW, "        if uninstantiated_name in self.ignore_classes:\n            return None\n\n        # Class docstring/comment\n        content_text = self.class_comment(instantiated_class)",
       "        # Class docstring/comment\n        content_text = self.class_comment(instantiated_class)\n        self._update_wrapper_id()\n        if uninstantiated_name in self.ignore_classes:\n            return None\n")),
    B("collector-kept-for-ignored-class", {"X2"},
      (MW, "            if uninstantiated_name in self.ignore_classes:\n                continue\n\n            class_name, class_name_sep = self.get_class_name(cls)",
       "            class_name, class_name_sep = self.get_class_name(cls)\n            typedef_collectors += WrapperTemplate.typdef_collectors.format(\n                class_name_sep=class_name_sep, class_name=class_name)\n"
       "            if uninstantiated_name in self.ignore_classes:\n                continue\n")),
    B("pybind-enums-of-ignored-class", {"X2"},
      (PW, "                    if wrapped_class:\n                        wrapped += self.wrap_enums(element.enums, element)", "                    wrapped += self.wrap_enums(element.enums, element)")),
    N("none-test-spelled-differently",
      (MW, "                    if not class_text is None:\n                        top_level_scope.append((class_text[0], class_text[1]))",
       "                    if class_text is not None:\n                        top_level_scope.append((class_text[0], class_text[1]))")),
    N("key-through-a-local-list",
      (MW, "            uninstantiated_name = \"::\".join(cls.namespaces()[1:] + [cls.name])", "            uninstantiated_name = \"::\".join(cls.namespaces()[1:] + [cls.name])\n            del_me = None")),
]

TABLE["C16"] = [
    B("files-concatenated-without-separator", {"Y1"},
      (MW, "                content += f.read() + \"\\n\"", "                content += f.read()")),
    B("submodule-parameter-renamed", {"Y2"},
      (PW, "            module_def = \"void {0}(py::module_ &m_)\".format(module_name)", "            module_def = \"void {0}(py::module_ &m)\".format(module_name)")),
    B("initialiser-declared-with-other-signature", {"Y2"},
      (PW, "                submodules[idx] = \"void {0}(py::module_ &);\".format(submodule)", "                submodules[idx] = \"void {0}(py::module_);\".format(submodule)")),
    B("submodule-named-by-full-filename", {"Y2"},
      (PW, "        cc_content = self.wrap_file(content, module_name=module_name)", "        cc_content = self.wrap_file(content, module_name=Path(source).name)")),
    B("first-submodule-skipped", {"Y2"},
      (PW, "        for source in sources[1:]:", "        for source in sources[2:]:")),
    B("ignore-may-be-none", {"Y3"},
      ("scripts/pybind_wrap.py", "        type=str,\n        default=[],\n", "        type=str,\n")),
    B("xml-source-not-forwarded", {"Y3"},
      ("scripts/pybind_wrap.py", "        xml_source=args.xml_source,\n", "")),
    B("boost-flag-crossed-with-submodule-flag", {"Y3"},
      ("scripts/pybind_wrap.py", "        use_boost_serialization=args.use_boost_serialization,", "        use_boost_serialization=args.is_submodule,")),
    B("matlab-out-ignored", {"Y3"},
      ("scripts/matlab_wrap.py", "    cc_content = wrapper.wrap(sources, path=args.out)", "    cc_content = wrapper.wrap(sources, path='.')")),
    B("scripts-normalise-top-namespace-differently", {"Y4"},
      ("scripts/matlab_wrap.py", "    if top_module_namespaces[0]:\n        top_module_namespaces = [''] + top_module_namespaces", "    top_module_namespaces = [''] + top_module_namespaces")),
    B("module-variable-prefix-changed", {"Y2"},
      (PW, "        return \"m_{}\".format('_'.join(sub_module_namespaces))", "        return \"mod_{}\".format('_'.join(sub_module_namespaces))")),
    N("files-joined",
      (MW, "                content += f.read() + \"\\n\"", "                content += \"\\n\" + f.read()")),
    N("ignore-or-empty",
      ("scripts/pybind_wrap.py", "        type=str,\n        default=[],\n", "        type=str,\n"),
      ("scripts/pybind_wrap.py", "        ignore_classes=args.ignore,", "        ignore_classes=args.ignore or [],")),
]

TABLE["C17"] = [
    B("declname-dereferenced-unchecked", {"Q2"},
      (XP, "                declname = params[i].find(\"declname\")\n                if declname is not None:\n                    ignored_params.append(declname.text)",
       "                ignored_params.append(params[i].find(\"declname\").text)")),
    B("simplesect-kind-by-subscript", {"Q2"},
      (XP, "            if return_para is not None and return_sect.attrib.get(\n                    \"kind\") == \"return\" and return_para.text is not None:",
       "            if return_para is not None and return_sect.attrib[\n                    \"kind\"] == \"return\" and return_para.text is not None:")),
    B("refid-guard-removed", {"Q2"},
      (XP, "        if \"refid\" not in class_index.attrib:\n", "        if False:\n")),
    B("return-text-unchecked", {"Q2"},
      (XP, "\"kind\") == \"return\" and return_para.text is not None:", "\"kind\") == \"return\":")),
    B("only-file-not-found-handled", {"Q3"},
      (XP, "        except OSError:\n            print(f\"Warning: XML file '{xml_file}' could not be read.\")\n            return None\n", "")),
    B("parse-error-propagates", {"Q3"},
      (XP, "        except ET.ParseError:\n            print(f\"Warning: Failed to parse XML file '{xml_file}'.\")\n            return None\n", "")),
    B("overload-index-unbounded", {"Q4"},
      (XP, "        if not member_defs or documenting_index >= len(member_defs):\n            return \"\"", "        if not member_defs:\n            return \"\"")),
    B("docstring-added-to-constructors", {"Q1"},
      (PW, "                        py_args_names=self._py_args_names(ctor.args),", "                        py_args_names=self._py_args_names(ctor.args) + (', \"ctor\"' if self.xml_source != \"\" else ''),")),
    B("quotes-not-escaped", {"Q1"},
      (PW, "        return '\"' + body.replace('\"', r'\\\"') + '\"'\n", "        return '\"' + body + '\"'\n")),
    B("empty-literal-without-xml", {"Q1"},
      (PW, "                   if self.xml_source != \"\" else \"\",", "                   if self.xml_source != \"\" else ', \"\"',")),
    B("index-queried-by-method-name", {"Q5"},
      (XP, "        class_index = index_root.find(f\"./*[name='{cpp_class}']\")", "        class_index = index_root.find(f\"./*[name='{cpp_method}']\")")),
    B("arity-filter-weakened", {"Q5"},
      (XP, "            if len(method_args_names) != num_req_params and len(\n                    method_args_names) != num_tot_params:", "            if len(method_args_names) > num_tot_params:")),
    B("names-compared-by-containment", {"Q5"},
      (XP, "                if arg_name != param_name.text:", "                if arg_name not in param_name.text:")),
    B("memory-key-without-class", {"Q5"},
      (XP, "            function_key = f\"{cpp_class}.{cpp_method}(", "            function_key = f\"{cpp_method}.{cpp_method}(")),
    N("return-paragraph-local-renamed",
      (XP, "            return_para = return_sect.find(\n                \"para\") if return_sect is not None else None\n            if return_para is not None and return_sect.attrib.get(\n                    \"kind\") == \"return\" and return_para.text is not None:\n                docstring += f\"Returns: {return_para.text.strip()}\"",
       "            rp = return_sect.find(\"para\") if return_sect is not None else None\n            if rp is not None and return_sect.attrib.get(\"kind\") == \"return\" and rp.text is not None:\n                docstring += f\"Returns: {rp.text.strip()}\"")),
    N("oserror-handler-merged",
      (XP, "        except FileNotFoundError:\n            print(f\"Warning: XML file '{xml_file}' not found.\")\n            return None\n        except OSError:", "        except OSError:")),
]

TABLE["C10"] = [
    B("cleanup-only-for-virtual-classes", {"T1"},
      (MW, "            delete_objs += WrapperTemplate.delete_obj.format(\n                class_name=class_name)",
       "            if cls.is_virtual:\n                delete_objs += WrapperTemplate.delete_obj.format(\n                    class_name=class_name)")),
    B("rtti-entry-for-every-class", {"T1"},
      (MW, "            if cls.is_virtual:\n                class_name, class_name_sep = self.get_class_name(cls)", "            if True:\n                class_name, class_name_sep = self.get_class_name(cls)")),
    B("classes-without-ctor-not-registered", {"T1"},
      (MW, "                self.add_class(element)\n", "                if element.ctors:\n                    self.add_class(element)\n")),
    B("enumerators-numbered-from-one", {"T2"},
      (MW, "            for idx, enumerator in enumerate(enum.enumerators)", "            for idx, enumerator in enumerate(enum.enumerators, 1)")),
    B("class-enum-path-from-joined-names", {"T3"},
      (MW, "            submodule = \"\".join(\n                f\"+{x}/\" for x in instantiated_class.namespaces()[1:])", "            submodule = f\"+{namespace_name}/\" if namespace_name != '' else \"\"")),
    B("function-path-skips-outer-namespace", {"T3"},
      (MW, "                    '+' + x + '/' for x in global_ns.full_namespaces()[1:]", "                    '+' + x + '/' for x in global_ns.full_namespaces()[2:]")),
    B("base-class-always-handle", {"T4"},
      (MW, "            parent=str(self._qualified_name(\n                instantiated_class.parent_class)).replace(\"::\", \".\"))", "            parent='handle')")),
    B("mex-entry-added-per-namespace", {"T5"},
      (MW, "                self.wrap_namespace(element, False)", "                self.wrap_namespace(element)")),
    B("methods-block-only-with-properties", {"T4"},
      (MW, "        if len(instantiated_class.methods) != 0:\n            methods = sorted(", "        if len(instantiated_class.properties) != 0:\n            methods = sorted(")),
    N("enum-path-list-comprehension",
      (MW, "            submodule = \"\".join(\n                f\"+{x}/\" for x in instantiated_class.namespaces()[1:])", "            submodule = \"\".join(\n                ['+' + x + '/' for x in instantiated_class.namespaces()[1:]])")),
]

TABLE["C11"] = [
    B("constructor-handle-not-registered", {"H1"},
      (MW, "                      collector_{class_name}.insert(self);\n                      out[0] = mxCreateNumericMatrix", "                      out[0] = mxCreateNumericMatrix")),
    B("constructor-handle-not-returned", {"H1"},
      (MW, "                      *reinterpret_cast<Shared**> (mxGetData(out[0])) = self;\n                    {base}", "                    {base}")),
    B("destructor-deletes-twice", {"H2"},
      (MW, "                      collector_{class_name}.erase(item);\n                    }}\n                    delete self;", "                      collector_{class_name}.erase(item);\n                      delete self;\n                    }}\n                    delete self;")),
    B("destructor-never-erases", {"H2"},
      (MW, "                    if(item != collector_{class_name}.end()) {{\n                      collector_{class_name}.erase(item);\n                    }}\n", "")),
    B("destructor-does-not-delete", {"H2"},
      (MW, "                    }}\n                    delete self;\n", "                    }}\n")),
    B("unload-hook-missing-in-collector-routine", {"H3"},
      (MW, "                body += textwrap.indent(textwrap.dedent('''\\\n                    mexAtExit(&_deleteAllObjects);\n                    typedef std::shared_ptr<{class_name_sep}> Shared;\\n\n                    Shared *self = *reinterpret_cast<Shared**> (mxGetData(in[0]));",
       "                body += textwrap.indent(textwrap.dedent('''\\\n                    typedef std::shared_ptr<{class_name_sep}> Shared;\\n\n                    Shared *self = *reinterpret_cast<Shared**> (mxGetData(in[0]));")),
    B("base-handle-in-wrong-slot", {"H4"},
      (MW, "                        *reinterpret_cast<SharedBase**>(mxGetData(out[1])) = new SharedBase(*self);", "                        *reinterpret_cast<SharedBase**>(mxGetData(out[0])) = new SharedBase(*self);")),
    B("unload-cleanup-erases-without-delete", {"H2"},
      (MT, "                  delete *iter;\n", "")),
    B("collector-call-only-for-non-virtual", {"H1"},
      (MW, "        methods_wrap += '      {ptr}{wrapper_name}({id}, my_ptr);\\n' \\\n            .format(", "        if not is_virtual:\n          methods_wrap += '      {ptr}{wrapper_name}({id}, my_ptr);\\n' \\\n            .format("),
      accept_analysis_error=True),
    B("unwrap-ptr-reads-array-storage", {"H5"},
      (H, "  std::shared_ptr<Class>* spp = *reinterpret_cast<std::shared_ptr<Class>**> (mxGetData(mxh));\n  return spp->get();", "  Class* x = reinterpret_cast<Class*> (mxGetData(mxh));\n  return x;")),
    N("handle-variable-renamed",
      (MW, "                    {body_args}  Shared *self = new Shared(new {class_name_sep}({params}));\n                      collector_{class_name}.insert(self);\n                      out[0] = mxCreateNumericMatrix(1, 1, mxUINT32OR64_CLASS, mxREAL);\n                      *reinterpret_cast<Shared**> (mxGetData(out[0])) = self;",
       "                    {body_args}  Shared *handle = new Shared(new {class_name_sep}({params}));\n                      collector_{class_name}.insert(handle);\n                      out[0] = mxCreateNumericMatrix(1, 1, mxUINT32OR64_CLASS, mxREAL);\n                      *reinterpret_cast<Shared**> (mxGetData(out[0])) = handle;")),
]

TABLE["C06"] = [
    B("method-arguments-unwrapped-from-zero", {"M3"},
      (MW, "                    arg_id=1 if is_method else 0,", "                    arg_id=0,")),
    B("counter-not-advanced-on-skip", {"M1"},
      (MW, "            if name in self.not_check_type:\n                arg_id += 1\n                continue", "            if name in self.not_check_type:\n                continue")),
    B("unwrap-counter-never-advanced", {"M1"},
      (MW, "                                         prefix='  ')\n            arg_id += 1\n", "                                         prefix='  ')\n")),
    B("point3-shape-test-differs-between-builders", {"M2"},
      (MW, "                check_statement += ' && size(varargin{{{num}}},1)==3'.format(", "                check_statement += ' && size(varargin{{{num}}},1)==4'.format(")),
    B("method-call-without-receiver", {"M3"},
      (MW, "                          {check_statement}{spacing}{varargout}{wrapper}({num}, this, varargin{{:}});", "                          {check_statement}{spacing}{varargout}{wrapper}({num}, varargin{{:}});")),
    B("nargin-adjusted-for-static-too", {"M3"},
      (MW, "                    min1='-1' if is_method else '',", "                    min1='-1',")),
    B("backup-overwritten-by-recursion", {"M4"},
      (MW, "                    *MatlabWrapper._expand_default_arguments(method,\n                                                             save_backup=False)", "                    *MatlabWrapper._expand_default_arguments(method,\n                                                             save_backup=True)")),
    B("defaults-peeled-from-the-front", {"M4"},
      (MW, "        for arg in reversed(method.args.list()):", "        for arg in method.args.list():")),
    B("default-text-for-explicit-arguments-too", {"M4"},
      (MW, "            if (arg.default is not None) and (arg.name\n                                              not in explicit_arg_names):", "            if (arg.default is not None):")),
    B("pair-elements-swapped", {"M6"},
      (MW, "        pair_value = 'first' if func_id == 0 else 'second'", "        pair_value = 'second' if func_id == 0 else 'first'")),
    B("pairs-counted-as-single", {"M6"},
      (MW, "        return 1 if return_type.type2 == '' else 2", "        return 1")),
    B("raw-pointer-unwrapped-as-shared", {"M7"},
      (MW, "            unwrap = 'unwrap_ptr< {ctype_sep} >(in[{id}], \"ptr_{ctype}\");'.format(", "            unwrap = 'unwrap_shared_ptr< {ctype_sep} >(in[{id}], \"ptr_{ctype}\");'.format(")),
    B("setter-loses-enum-context", {"M7"},
      (MW, "                    extra, arg_id=1, instantiated_class=collector_func[1])", "                    extra, arg_id=1)")),
    B("static-expected-count-from-other-list", {"M3"},
      (MW, "                    num_args=len(extra.args.list()),", "                    num_args=len(extra.args.backup.list()),")),
    B("getter-expects-one-argument", {"M3"},
      (MW, "                        num_args=0,", "                        num_args=1,")),
    N("counter-renamed",
      (MW, "        arg_id = 1\n\n        param_count = len(args)", "        position = 1\n\n        param_count = len(args)"),
      (MW, "            if name in self.not_check_type:\n                arg_id += 1\n                continue", "            if name in self.not_check_type:\n                position += 1\n                continue"),
      (MW, "                id=arg_id, ctype=check_type)", "                id=position, ctype=check_type)"),
      (MW, "                    num=arg_id)\n            if name == 'Point2':\n                check_statement", "                    num=position)\n            if name == 'Point2':\n                check_statement"),
      (MW, "                check_statement += ' && size(varargin{{{num}}},1)==2'.format(\n                    num=arg_id)\n                check_statement += ' && size(varargin{{{num}}},2)==1'.format(\n                    num=arg_id)\n            if name == 'Point3':\n                check_statement += ' && size(varargin{{{num}}},1)==3'.format(\n                    num=arg_id)\n                check_statement += ' && size(varargin{{{num}}},2)==1'.format(\n                    num=arg_id)\n\n            arg_id += 1",
       "                check_statement += ' && size(varargin{{{num}}},1)==2'.format(\n                    num=position)\n                check_statement += ' && size(varargin{{{num}}},2)==1'.format(\n                    num=position)\n            if name == 'Point3':\n                check_statement += ' && size(varargin{{{num}}},1)==3'.format(\n                    num=position)\n                check_statement += ' && size(varargin{{{num}}},2)==1'.format(\n                    num=position)\n\n            position += 1")),
]

TABLE["C17"] += [
    B("optional-element-tested-by-truth-value", {"Q2"},
      (XP, "                1 if param.find(\"defval\") is not None else 0", "                1 if param.find(\"defval\") else 0")),
]
TABLE["C03"] += [
    B("child-namespaces-through-a-dict", {"A3"},
      (PW, "                if isinstance(element, parser.Namespace):\n                    (\n                        wrapped_namespace,\n                        includes_namespace,\n                    ) = self.wrap_namespace(  # noqa\n                        element)",
       "                if isinstance(element, parser.Namespace):\n                    (\n                        wrapped_namespace,\n                        includes_namespace,\n                    ) = self.wrap_namespace(  # noqa\n                        {e.name: e for e in namespace.content if isinstance(e, parser.Namespace)}[element.name])")),
    B("keyword-list-extended-through-alias", {"A8", "A6"},
      (PW, "            python_keywords = self.python_keywords + ['print']", "            python_keywords = self.python_keywords\n            python_keywords += ['print']")),
]
TABLE["C04"] += [
    B("default-text-whitespace-collapsed", {"B2"},
      (PW, "                    default = ' = {arg.default}'.format(arg=arg)", "                    default = ' = {}'.format(' '.join(arg.default.split()))")),
    B("type-copy-only-when-templated", {"B8"},
      (HP, "    ctype = deepcopy(ctype)\n", "    if ctype.typename.instantiations:\n        ctype = deepcopy(ctype)\n")),
]
TABLE["C09"] += [
    B("prefix-cleared-only-for-non-identifiers", {"W3"},
      (PW, "            # The initialiser is an expression, not a name inside `namespace`.\n            namespace = \"\"\n",
       "            if not variable_value.isidentifier():\n                namespace = \"\"\n")),
    B("shallow-nothing-to-do-gate", {"W5"},
      (HP, "    # make a deep copy so that there is no overwriting of original template params\n",
       "    if ctype.typename.name not in template_typenames and not any(\n            i.name in template_typenames for i in ctype.typename.instantiations) and 'This' not in str(ctype.typename):\n        return ctype\n"
       "    # make a deep copy so that there is no overwriting of original template params\n")),
]
TABLE["C02"] += [
    B("shallow-nothing-to-do-gate", {"S2"},
      (HP, "    # make a deep copy so that there is no overwriting of original template params\n",
       "    if ctype.typename.name not in template_typenames and not any(\n            i.name in template_typenames for i in ctype.typename.instantiations) and 'This' not in str(ctype.typename):\n        return ctype\n"
       "    # make a deep copy so that there is no overwriting of original template params\n")),
]
TABLE["C15"] += [
    B("typedefs-built-outside-the-ignore-guard", {"X2"},
      (MW, "        delete_objs = ''\n        typedef_instances = []\n", "        delete_objs = ''\n        typedef_instances = ['typedef {} {};'.format(c.to_cpp(), c.name) for c in self.classes if c.instantiations]\n")),
    B("class-key-normalised-for-docstrings", {"X4"},
      (XP, "        self.print_if_verbose(f\"Extracting docs for {cpp_class}.{cpp_method}\")\n", "        cpp_class = cpp_class.split('<', 1)[0].strip()\n        self.print_if_verbose(f\"Extracting docs for {cpp_class}.{cpp_method}\")\n")),
]
TABLE["C05"] += [
    B("overloads-grouped-only-when-adjacent", {"I3"},
      (MW, "            method_index = method_map.get(method.name)\n\n            if method_index is None:", "            method_index = (len(method_out) - 1) if method_out and method_out[-1][0].name == method.name else None\n\n            if method_index is None:")),
]
TABLE["C16"] += [
    B("sources-filtered-by-stem", {"Y3"},
      ("scripts/pybind_wrap.py", "        sources = args.src.split(';')\n", "        sources = args.src.split(';')\n        sources = sources[:1] + [s for s in sources[1:] if s != sources[0]]\n")),
    B("separator-only-when-file-lacks-newline", {"Y1"},
      (MW, "                content += f.read() + \"\\n\"", "                text = f.read()\n                content += text if text.endswith(('\\n', ';', '}')) else text + \"\\n\""),
      accept_analysis_error=True),
]

_GM_OLD = '        method_map = {}\n        method_out = []\n\n        for method in methods:\n            method_index = method_map.get(method.name)\n\n            if method_index is None:\n                method_map[method.name] = len(method_out)\n                method_out.append(\n                    MatlabWrapper._expand_default_arguments(method))\n            else:\n                method_out[\n                    method_index] += MatlabWrapper._expand_default_arguments(\n                        method)\n\n        return method_out\n'
_GM_GROUPBY = '        from itertools import groupby\n        return [\n            sum((MatlabWrapper._expand_default_arguments(m) for m in overloads), [])\n            for _, overloads in groupby(methods, key=lambda m: m.name)\n        ]\n'
_GM_GROUPBY_SORTED = '        from itertools import groupby\n        return [\n            sum((MatlabWrapper._expand_default_arguments(m) for m in overloads), [])\n            for _, overloads in groupby(sorted(methods, key=lambda x: x.name), key=lambda m: m.name)\n        ]\n'
for _p, _r in (("C10", "T6"), ("C05", "I3"), ("C06", "M5")):
    TABLE[_p].append(B("grouping-by-consecutive-runs-groupby", {_r}, (MW, _GM_OLD, _GM_GROUPBY)))
TABLE["C10"].append(N("grouping-by-groupby-over-sorted-input", (MW, _GM_OLD, _GM_GROUPBY_SORTED)))
TABLE["C06"].append(N("grouping-by-groupby-over-sorted-input", (MW, _GM_OLD, _GM_GROUPBY_SORTED)))
TABLE["C06"] += [
    B("default-arities-filtered-by-declared-counts", {"M5"},
      (MW, "                method_out.append(\n                    MatlabWrapper._expand_default_arguments(method))",
       "                method_out.append([o for o in MatlabWrapper._expand_default_arguments(method) if len(o.args.list()) != 1 or o is method])")),
    B("omitted-default-text-normalised", {"M4"},
      (MW, "                params += arg.default\n", "                params += ' '.join(arg.default.split())\n")),
    N("expansion-held-in-a-local",
      (MW, "                method_out.append(\n                    MatlabWrapper._expand_default_arguments(method))",
       "                expanded = MatlabWrapper._expand_default_arguments(method)\n                method_out.append(expanded)")),
]
_FLAG_EDITS = [
    (MW, "        methods = self._group_class_methods(methods)\n", "        self.has_serialize = False\n        methods = self._group_class_methods(methods)\n"),
    (MW, "                    serialize[0] = True\n", "                    serialize[0] = True\n                    self.has_serialize = True\n"),
    (MW, "                                     serialize[0]).splitlines()) + '\\n' + \\\n", "                                     self.has_serialize).splitlines()) + '\\n' + \\\n"),
]
_FLAG_RESET = (MW, "        serialize = [False]\n", "        serialize = [False]\n        self.has_serialize = False\n")
TABLE["C10"] += [
    B("per-class-flag-kept-on-self-reset-only-when-methods-exist", {"T7"}, *_FLAG_EDITS),
    N("per-class-flag-on-self-reset-for-every-class", *(_FLAG_EDITS + [_FLAG_RESET])),
]
TABLE["C14"] += [
    B("per-class-flag-kept-on-self-reset-only-when-methods-exist", {"R7"}, *_FLAG_EDITS),
    N("per-class-flag-on-self-reset-for-every-class", *(_FLAG_EDITS + [_FLAG_RESET])),
]
TABLE["C08"] += [
    B("typedef-target-memo-on-the-class", {"N6"},
      (IP + "namespace.py", "    def __init__(self, name: str, content: ZeroOrMore, parent=''):\n",
       "    _resolved = {}\n\n    def __init__(self, name: str, content: ZeroOrMore, parent=''):\n"),
      (IP + "namespace.py", "        else:\n            return res[0]\n", "        else:\n            self._resolved[typename.qualified_name()] = res[0]\n            return res[0]\n")),
]
_ESC_OLD_M = "        if py_method in self.python_keywords:\n            py_method = py_method + \"_\"\n"
_ESC_NEW_M = "        py_method = self._py_name(py_method)\n"
_ESC_ANCHOR = "    def _method_args_signature(self, args):\n"
_HELPER_BAD = ("    def _py_name(self, name, also_reserved=()):\n        reserved = self.python_keywords\n        reserved += also_reserved\n"
               "        return name + \"_\" if name in reserved else name\n\n")
_HELPER_OK = ("    def _py_name(self, name, also_reserved=()):\n        reserved = self.python_keywords + list(also_reserved)\n"
              "        return name + \"_\" if name in reserved else name\n\n")
TABLE["C03"] += [
    B("escape-helper-extends-the-keyword-list-in-place", {"A6"},
      (PW, _ESC_ANCHOR, _HELPER_BAD + _ESC_ANCHOR), (PW, _ESC_OLD_M, _ESC_NEW_M)),
    N("escape-moved-into-a-helper",
      (PW, _ESC_ANCHOR, _HELPER_OK + _ESC_ANCHOR), (PW, _ESC_OLD_M, _ESC_NEW_M)),
]
_SUBMOD_GUARD = (PW, "                    and module_var not in self._submodule_vars:\n",
                 "                    and module_var not in self._submodule_vars \\\n                    and any(not isinstance(e, parser.Namespace) for e in namespace.content):\n")
_LAZY_COPY = (TI + "helpers.py", "    ctype = deepcopy(ctype)\n", "    if ctype.typename.instantiations:\n        ctype = deepcopy(ctype)\n")
TABLE["C09"] += [
    B("submodule-declared-only-for-namespaces-with-own-content", {"W6"}, _SUBMOD_GUARD),
    B("type-copied-only-when-it-has-template-arguments", {"W5"}, _LAZY_COPY),
]
TABLE["C03"] += [B("submodule-declared-only-for-namespaces-with-own-content", {"A4"}, _SUBMOD_GUARD)]
TABLE["C02"] += [B("type-copied-only-when-it-has-template-arguments", {"S7"}, _LAZY_COPY)]
TABLE["C04"] += [B("type-copied-only-when-it-has-template-arguments", {"B8"}, _LAZY_COPY)]
_REPARENT = (TI + "namespace.py", "    namespace.content = instantiated_content\n",
             "    namespace.content = instantiated_content\n    for child in namespace.content:\n        child.parent = namespace\n")
TABLE["C04"] += [B("rebuilt-content-reparented", {"B8"}, _REPARENT)]
TABLE["C13"] += [B("rebuilt-content-reparented", {"P1"}, _REPARENT)]
TABLE["C01"] += [B("rebuilt-content-reparented", {"G8"}, _REPARENT)]
_MEMO_INIT = (IP + "namespace.py", "        for child in self.content:\n            child.parent = self\n",
              "        for child in self.content:\n            child.parent = self\n        self._resolved = {}\n")
_MEMO_STORE_NAME = (IP + "namespace.py", "        else:\n            return res[0]\n", "        else:\n            self._resolved[typename.name] = res[0]\n            return res[0]\n")
_MEMO_STORE_QUAL = (IP + "namespace.py", "        else:\n            return res[0]\n", "        else:\n            self._resolved[typename.qualified_name()] = res[0]\n            return res[0]\n")
_MEMO_READ_NAME = (IP + "namespace.py", "        found_namespaces = find_sub_namespace(self, typename.namespaces)\n",
                   "        if typename.name in self._resolved:\n            return self._resolved[typename.name]\n        found_namespaces = find_sub_namespace(self, typename.namespaces)\n")
_MEMO_READ_QUAL = (IP + "namespace.py", "        found_namespaces = find_sub_namespace(self, typename.namespaces)\n",
                   "        if typename.qualified_name() in self._resolved:\n            return self._resolved[typename.qualified_name()]\n        found_namespaces = find_sub_namespace(self, typename.namespaces)\n")
TABLE["C07"] += [
    B("typedef-lookup-memo-keyed-by-bare-name", {"V6"}, _MEMO_INIT, _MEMO_STORE_NAME, _MEMO_READ_NAME),
    N("typedef-lookup-memo-keyed-by-qualified-name", _MEMO_INIT, _MEMO_STORE_QUAL, _MEMO_READ_QUAL),
    B("typedef-lookup-returns-first-candidate-unchecked", {"V6"},
      (IP + "namespace.py", "        if not res:\n            raise ValueError(\"Cannot find class {} in module!\".format(\n                typename.name))\n        elif len(res) > 1:",
       "        if res and res[0].name == typename.name:\n            return res[0]\n        if not res:\n            raise ValueError(\"Cannot find class {} in module!\".format(\n                typename.name))\n        elif len(res) > 1:")),
]
TABLE["C07"] += [
    B("include-header-may-span-lines", {"V7"}, (IP + "declaration.py", "CharsNotIn('>\\n')(\"header\")", "CharsNotIn('>')(\"header\")")),
    N("include-header-also-excludes-quotes", (IP + "declaration.py", "CharsNotIn('>\\n')(\"header\")", "CharsNotIn('>\"\\n')(\"header\")")),
]
TABLE["C01"] += [
    B("enum-key-plain-literals", {"G9"},
      (IP + "tokens.py", 'ENUM = Keyword("enum") + Optional(Keyword("class") ^ Keyword("struct"))', 'ENUM = Keyword("enum") + Optional(Literal("class") ^ Literal("struct"))')),
    B("const-as-plain-literal", {"G9"},
      (IP + "tokens.py", "CONST, VIRTUAL, CLASS, STATIC, PAIR, TEMPLATE, TYPEDEF, INCLUDE = map(\n    Keyword,", "CONST, VIRTUAL, CLASS, STATIC, PAIR, TEMPLATE, TYPEDEF, INCLUDE = map(\n    Literal,")),
]
_WRAP_HEAD = (MW, "        \"\"\"High level function to wrap the project.\"\"\"\n        content = \"\"\n",
              "        \"\"\"High level function to wrap the project.\"\"\"\n        self._start_run()\n        content = \"\"\n")
_START_ID_ONLY = (MW, "    def _qualified_name(self, names):\n", "    def _start_run(self):\n        self.wrapper_id = 0\n        self.content = []\n\n    def _qualified_name(self, names):\n")
_START_BOTH = (MW, "    def _qualified_name(self, names):\n", "    def _start_run(self):\n        self.wrapper_id = 0\n        self.wrapper_map = {}\n        self.content = []\n\n    def _qualified_name(self, names):\n")
TABLE["C05"] += [
    B("run-restart-resets-the-counter-but-not-the-map", {"I1"}, _WRAP_HEAD, _START_ID_ONLY),
    N("run-restart-resets-counter-and-map", _WRAP_HEAD, _START_BOTH),
    B("accessor-prefix-from-a-different-class-spelling", {"I6"},
      (MW, "                if method_name.startswith(class_name + \"_get_\"):", "                if method_name.startswith(self._format_class_name(collector_func[1]) + \"_get_\"):")),
]
TABLE["C11"] += [
    B("reference-return-adopted-into-a-handle", {"H6"},
      (MW, "            if ctype.is_shared_ptr or ctype.is_ptr:\n                shared_obj = '{obj},\"{method_name_sep}\"'.format(\n                    obj=obj, method_name_sep=sep_method_name('.'))\n",
       "            if ctype.is_shared_ptr or ctype.is_ptr:\n                shared_obj = '{obj},\"{method_name_sep}\"'.format(\n                    obj=obj, method_name_sep=sep_method_name('.'))\n"
       "            elif ctype.is_ref:\n                shared_obj = 'std::shared_ptr<{t}>(&{obj}),\"{method_name_sep}\"'.format(\n                    t=sep_method_name(), obj=obj, method_name_sep=sep_method_name('.'))\n")),
    B("pair-member-adopted-by-address", {"H6"},
      (MW, "                shared_obj = 'std::make_shared<{name}>({shared_obj})' \\\n", "                shared_obj = 'std::shared_ptr<{name}>(&{shared_obj})' \\\n")),
    B("enum-names-cached-per-namespace-simple-name", {"H7"},
      (MX, "            global_enums = [\n                member.name for member in class_.parent.content\n                if isinstance(member, parser.Enum)\n            ]\n            return arg_type.typename.name in global_enums",
       "            return arg_type.typename.name in self._namespace_enums(class_.parent)"),
      (MX, "    def is_global_enum(self,", "    def _namespace_enums(self, namespace):\n        if not hasattr(self, '_enum_cache'):\n            self._enum_cache = {}\n        if namespace.name not in self._enum_cache:\n            self._enum_cache[namespace.name] = [m.name for m in namespace.content if isinstance(m, parser.Enum)]\n        return self._enum_cache[namespace.name]\n\n    def is_global_enum(self,")),
    N("enum-names-cached-per-namespace-object", 
      (MX, "            global_enums = [\n                member.name for member in class_.parent.content\n                if isinstance(member, parser.Enum)\n            ]\n            return arg_type.typename.name in global_enums",
       "            return arg_type.typename.name in self._namespace_enums(class_.parent)"),
      (MX, "    def is_global_enum(self,", "    def _namespace_enums(self, namespace):\n        if not hasattr(self, '_enum_cache'):\n            self._enum_cache = {}\n        if id(namespace) not in self._enum_cache:\n            self._enum_cache[id(namespace)] = [m.name for m in namespace.content if isinstance(m, parser.Enum)]\n        return self._enum_cache[id(namespace)]\n\n    def is_global_enum(self,")),
]
TABLE["C08"] += [
    B("typedef-looked-up-while-namespaces-are-being-replaced", {"N2"},      # the defect repaired by 966c4e3
      (TI + "namespace.py", "            original_element = typedef_targets[id(typedef_inst)]\n",
       "            original_element = namespace.top_level().find_class_or_function(\n                typedef_inst.typename)\n")),
    B("typedef-resolver-skips-nested-namespaces", {"N2"},
      (TI + "namespace.py", "        elif isinstance(element, parser.Namespace):\n            find_typedef_targets(element, targets)\n", "")),
    B("typedef-table-not-handed-to-nested-namespaces", {"N2"},
      (TI + "namespace.py", "            element = instantiate_namespace(element, typedef_targets)\n", "            element = instantiate_namespace(element)\n")),
    N("typedef-table-keyed-by-the-typedef-object",
      (TI + "namespace.py", "            original_element = typedef_targets[id(typedef_inst)]\n", "            original_element = typedef_targets[typedef_inst]\n"),
      (TI + "namespace.py", "            targets[id(element)] = top_level.find_class_or_function(", "            targets[element] = top_level.find_class_or_function(")),
]
_RE_SUB = "        body = re.sub(r'\\\\(x[0-9a-f]{2}|.)', bounded, repr(text)[1:-1])\n"
TABLE["C17"] += [
    B("docstring-literal-is-the-bare-repr", {"Q1"},            # the defect repaired by 1d94140
      (PW, _RE_SUB, "        body = repr(text)[1:-1]\n")),
    B("hex-escapes-matched-without-tokenising-the-other-escapes", {"Q1"},
      (PW, _RE_SUB, "        body = re.sub(r'\\\\(x[0-9a-f]{2})', bounded, repr(text)[1:-1])\n")),
    B("octal-escape-not-padded", {"Q1"},
      (PW, "            return '\\\\%03o' % code if code < 0x80 else '\\\\u%04x' % code\n", "            return '\\\\%o' % code if code < 0x80 else '\\\\u%04x' % code\n")),
    B("octal-escape-for-every-code", {"Q1"},
      (PW, "            return '\\\\%03o' % code if code < 0x80 else '\\\\u%04x' % code\n", "            return '\\\\%03o' % code\n")),
    B("print-redirect-rewrites-every-occurrence", {"Q6"},    # the defect repaired by eb1f87f
      (PW, "                          'py::scoped_ostream_redirect output; self->print',\n                          1)\n", "                          'py::scoped_ostream_redirect output; self->print')\n")),
    N("octal-escape-with-format-spec",
      (PW, "            return '\\\\%03o' % code if code < 0x80 else '\\\\u%04x' % code\n", "            return '\\\\{:03o}'.format(code) if code < 128 else '\\\\u{:04x}'.format(code)\n")),
]
TABLE["C17"] += [
    B("apostrophes-unescaped-after-tokenising", {"Q1"},
      (PW, "        return '\"' + body.replace('\"', r'\\\"') + '\"'\n", "        body = body.replace(\"\\\\'\", \"'\").replace('\"', '\\\\\"')\n        return '\"' + body + '\"'\n")),
]
TABLE["C18"] += [
    B("empty-matrix-shortcut-loses-the-shape", {"K8"},
      (H, "  double* data = (double*)mxGetData(array);\n  gtsam::Matrix A(m,n);", "  double* data = (double*)mxGetData(array);\n  if (data==NULL) return gtsam::Matrix();\n  gtsam::Matrix A(m,n);")),
    N("empty-matrix-shortcut-keeps-the-shape",
      (H, "  double* data = (double*)mxGetData(array);\n  gtsam::Matrix A(m,n);", "  double* data = (double*)mxGetData(array);\n  if (data==NULL) return gtsam::Matrix(m,n);\n  gtsam::Matrix A(m,n);")),
]
TABLE["C16"] += [
    B("ignore-entries-split-on-blanks-by-the-script", {"Y3"},
      ("scripts/pybind_wrap.py", "        ignore_classes=args.ignore,\n", "        ignore_classes=[n for item in args.ignore for n in item.split()],\n")),
    N("ignore-option-guarded-against-none",
      ("scripts/pybind_wrap.py", "        ignore_classes=args.ignore,\n", "        ignore_classes=args.ignore or [],\n")),
    B("boost-include-only-in-the-main-file", {"Y2"},
      (PW, "        if self.use_boost_serialization:\n            includes += \"#include <boost/serialization/export.hpp>\"\n",
       "        if self.use_boost_serialization and submodules is not None:\n            includes += \"#include <boost/serialization/export.hpp>\"\n")),
]
TABLE["C15"] += [
    B("overload-counter-keyed-by-the-last-name-component", {"X4"},
      (XP, "            function_key = f\"{cpp_class}.{cpp_method}(", "            cls_ = cpp_class.rsplit('::', 1)[-1]\n            function_key = f\"{cls_}.{cpp_method}(")),
    B("preamble-ignore-key-from-the-template-name", {"X1"},
      (MW, "            uninstantiated_name = \"::\".join(cls.namespaces()[1:] + [cls.name])", "            uninstantiated_name = \"::\".join(cls.namespaces()[1:] + [cls.original.name])")),
]
TABLE["C14"] += [
    B("main-module-file-opened-for-update", {"R6"},
      (PW, "        with open(main_module_name, \"w\", encoding=\"UTF-8\") as f:", "        with open(main_module_name, \"r+\", encoding=\"UTF-8\") as f:")),
]
TABLE["C12"] += [
    B("comment-skipper-installed-on-an-empty-forward", {"L1"},
      (IP + "type.py", "    rule = Forward()\n", "    rule = Forward()\n    rule.ignore(cppStyleComment)\n"),
      (IP + "type.py", "from pyparsing import Forward, Optional, Or, delimitedList", "from pyparsing import Forward, Optional, Or, cppStyleComment, delimitedList")),
    N("comment-skipper-also-installed-on-a-complete-rule",
      (IP + "declaration.py", "class ForwardDeclaration:", "Include.rule.ignore(cppStyleComment)\n\n\nclass ForwardDeclaration:"),
      (IP + "declaration.py", "from pyparsing import CharsNotIn, Optional  # type: ignore", "from pyparsing import CharsNotIn, Optional, cppStyleComment  # type: ignore")),
]
TABLE["C19"] += [
    B("recursive-template-argument-alternative-tried-first", {"Z5"},
      (IP + "type.py", "delimitedList(Type.rule ^ rule, \",\")", "delimitedList(rule ^ Type.rule, \",\")")),
]
_ENUM_MEMO = [
    (MW, "        file_name = enum.name + '.m'\n", "        key = '::'.join(enum.namespaces()[1:] + [enum.name])\n        if key in self.enum_files:\n            return self.enum_files[key]\n        file_name = enum.name + '.m'\n"),
    (MW, "        content = enum_template.format(enum.name, enumerators)\n        return file_name, content\n", "        content = enum_template.format(enum.name, enumerators)\n        self.enum_files[key] = (file_name, content)\n        return file_name, content\n"),
    (MW, "        self.content: List[str] = []\n", "        self.content: List[str] = []\n        self.enum_files = {}\n"),
]
TABLE["C10"] += [B("rendered-enum-memoised-by-spelling", {"T8"}, *_ENUM_MEMO)]
TABLE["C14"] += [B("rendered-enum-memoised-by-spelling", {"R8"}, *_ENUM_MEMO)]
_CT_A = "            check_type = self.data_type_param.get(name)\n\n            if self.data_type.get(check_type):\n                check_type = self.data_type[check_type]\n\n            if check_type is None:\n                check_type = self._format_type_name(\n                    arg.ctype.typename,\n                    separator='.',\n                    is_constructor=not wrap_datatypes)\n"
_CT_B = "            check_type = self.data_type_param.get(name)\n\n            if self.data_type.get(check_type):\n                check_type = self.data_type[check_type]\n\n            if check_type is None:\n                check_type = self._format_type_name(arg.ctype.typename,\n                                                    separator='.')\n"
_CT_ANCHOR = '    def _wrap_list_variable_arguments(self, args):'
TABLE["C06"] += [
    N("guard-type-lookup-moved-into-a-helper", (MW, _CT_A, '            check_type = self._check_type(arg.ctype.typename, is_constructor=not wrap_datatypes)\n'), (MW, _CT_B, '            check_type = self._check_type(arg.ctype.typename)\n'), (MW, _CT_ANCHOR + "\n", "    def _check_type(self, typename, is_constructor=False):\n        check_type = self.data_type_param.get(typename.name)\n\n        if self.data_type.get(check_type):\n            check_type = self.data_type[check_type]\n\n        if check_type is None:\n            check_type = self._format_type_name(typename, separator='.', is_constructor=is_constructor)\n\n        return check_type\n\n" + _CT_ANCHOR + "\n")),
    B("guard-type-lookup-cached-by-short-name", {"M8"}, (MW, _CT_A, '            check_type = self._check_type(arg.ctype.typename, is_constructor=not wrap_datatypes)\n'), (MW, _CT_B, '            check_type = self._check_type(arg.ctype.typename)\n'), (MW, _CT_ANCHOR + "\n", "    def _check_type(self, typename, is_constructor=False):\n        if not hasattr(self, 'check_types'):\n            self.check_types = {}\n        key = (typename.instantiated_name(), is_constructor)\n        check_type = self.check_types.get(key)\n        if check_type is None:\n            check_type = self.data_type_param.get(typename.name)\n\n            if self.data_type.get(check_type):\n                check_type = self.data_type[check_type]\n\n            if check_type is None:\n                check_type = self._format_type_name(typename, separator='.', is_constructor=is_constructor)\n            self.check_types[key] = check_type\n\n        return check_type\n\n" + _CT_ANCHOR + "\n")),
]
TABLE["C11"] += [
    B("insert-routine-allocates-base-handle-for-every-class", {"H4"},
      (MW, "                if collector_func[1].parent_class:", "                if True or collector_func[1].parent_class:", 1)),
    B("dot-m-constructor-ignores-parents-on-the-ignore-list", {"H4"},
      (MW, "                instantiated_class.parent_class,\n                instantiated_class.ctors,", "                '' if str(instantiated_class.parent_class) in self.ignore_classes else instantiated_class.parent_class,\n                instantiated_class.ctors,")),
    B("grouping-by-consecutive-runs-groupby", {"H8"}, (MW, _GM_OLD, _GM_GROUPBY)),
]
_FSN = (IP + "namespace.py", "        ns = find_sub_namespace(found_namespace, str_namespaces[1:])\n        if ns:\n            res += ns\n    return res\n",
        "        ns = find_sub_namespace(found_namespace, str_namespaces[1:])\n        if ns:\n            return ns\n    return res\n")
_FSN2 = (IP + "namespace.py", "        ns = find_sub_namespace(found_namespace, str_namespaces[1:])\n", "        ns = find_sub_namespace(found_namespace, str_namespaces[2:])\n")
TABLE["C08"] += [B("namespace-path-lookup-stops-at-the-first-block", {"N2"}, _FSN), B("namespace-path-lookup-skips-a-component", {"N2"}, _FSN2)]
TABLE["C07"] += [B("namespace-path-lookup-stops-at-the-first-block", {"V6"}, _FSN), B("namespace-path-lookup-skips-a-component", {"V6"}, _FSN2)]
TABLE["C07"] += [
    B("arity-assertion-compares-the-template-with-itself", {"V6"},
      (TI + "classes.py", "            assert len(original.template.typenames) == len(\n                instantiations), \"Typenames and instantiations mismatch!\"",
       "            assert len(original.template.typenames) == len(\n                original.template.instantiations), \"Typenames and instantiations mismatch!\"")),
    N("arity-assertion-on-hoisted-locals",
      (TI + "classes.py", "        if original.template:\n            assert len(original.template.typenames) == len(\n                instantiations), \"Typenames and instantiations mismatch!\"",
       "        template = original.template\n        names = template.typenames if template else []\n        if template:\n            assert len(names) == len(\n                instantiations), \"Typenames and instantiations mismatch!\"")),
]
_TT_COPY = (IP + "type.py", "        instantiations = [param.typename for param in template_params]\n",
            "        import copy\n        instantiations = [copy.deepcopy(param.typename) for param in template_params]\n")
TABLE["C02"] += [B("templated-type-copies-its-argument-typenames", {"S8"}, _TT_COPY)]
TABLE["C04"] += [B("templated-type-copies-its-argument-typenames", {"B8"}, _TT_COPY)]
TABLE["C09"] += [B("templated-type-copies-its-argument-typenames", {"W5"}, _TT_COPY)]
TABLE["C06"] += [
    B("varargout-taken-from-the-first-overload", {"M9"},
      (MW, "                    varargout = self._format_varargout(overload.return_type,\n", "                    varargout = self._format_varargout(method[0].return_type,\n")),
    B("static-check-statement-from-the-first-overload", {"M9"},
      (MW, "                check_statement = self._wrap_method_check_statement(\n                    static_overload.args)", "                check_statement = self._wrap_method_check_statement(\n                    static_overloads[0].args)")),
]
TABLE["C05"] += [
    B("accessor-text-dropped-after-its-id-was-allocated", {"I3"},
      (MW, "            properties.append(getter)\n", "            if propty.name.startswith('_'):\n                continue\n            properties.append(getter)\n")),
    B("upcast-routine-named-differently-at-definition-and-call", {"I5"},
      (MW, "                    id_val[1].name, idx, id_val[1].to_cpp())", "                    id_val[0] + id_val[1].name, idx, id_val[1].to_cpp())")),
]
TABLE["C02"] += [
    B("scoped-component-replaced-by-the-qualified-spelling", {"S9", "S14"},
      (HP, "            instantiation.name if part == scoped_template else part", "            instantiation.to_cpp() if part == scoped_template else part")),
]
TABLE["C01"] += [
    B("forward-declaration-base-not-stored", {"G11"},
      (IP + "declaration.py", "        if parent_type:\n            self.parent_type = parent_type\n        else:", "        if parent_type:\n            pass\n        else:")),
    B("variable-default-stored-only-for-basic-types", {"G11"},
      (IP + "variable.py", "        self.default = default\n", "        if self.ctype.is_basic:\n            self.default = default\n")),
]
_DECL_PARENT = (TI + "declaration.py", "        self.parent = original.parent\n", "")
# the base constructor already receives parent=original.parent: deleting the second assignment changes nothing
TABLE["C02"] += [N("instantiated-declaration-parent-set-by-the-base-constructor-only", _DECL_PARENT)]
TABLE["C08"] += [N("instantiated-declaration-parent-set-by-the-base-constructor-only", _DECL_PARENT)]
_FUNC_PARENT = (TI + "function.py", "        self.parent = original.parent\n", "        self.parent = ''\n")
TABLE["C02"] += [B("instantiated-function-detached-from-its-namespace", {"S10"}, _FUNC_PARENT)]
TABLE["C08"] += [B("instantiated-function-detached-from-its-namespace", {"N9"}, _FUNC_PARENT)]
TABLE["C17"] += [
    B("optional-parameters-counted-with-inverted-test", {"Q5"},
      (XP, "                1 if param.find(\"defval\") is not None else 0", "                1 if param.find(\"defval\") is None else 0")),
    B("defname-fallback-taken-when-declname-is-present", {"Q5"},
      (XP, "                if param_name is None:\n                    param_name = params[i].find(\"defname\")", "                if param_name is not None:\n                    param_name = params[i].find(\"defname\")")),
    B("overload-counter-starts-at-one", {"Q5"},
      (XP, "                self._memory[function_key] = 0\n", "                self._memory[function_key] = 1\n")),
]
TABLE["C09"] += [
    B("boost-alias-not-sanitised", {"W7"},
      (PW, "                    new_name = re.sub(\"[,:<> ]\", \"\", cpp_class)\n", "                    pass\n")),
    B("boost-alias-keeps-the-commas", {"W7"},
      (PW, "                    new_name = re.sub(\"[,:<> ]\", \"\", cpp_class)\n", "                    new_name = re.sub(\"[:<> ]\", \"\", cpp_class)\n")),
]
TABLE["C02"] += [
    B("property-instantiation-lists-swapped", {"S11"},
      (TI + "classes.py", "            self.original.properties,\n            typenames,\n            self.instantiations,", "            self.original.properties,\n            self.instantiations,\n            typenames,")),
    B("parent-class-instantiation-lists-swapped", {"S11"},
      (TI + "classes.py", "                self.original.parent_class, typenames, self.instantiations,", "                self.original.parent_class, self.instantiations, typenames,")),
]
TABLE["C17"] += [
    B("index-guard-conjunction", {"Q4"},
      (XP, "        if not member_defs or documenting_index >= len(member_defs):", "        if not member_defs and documenting_index >= len(member_defs):")),
    B("optional-parameter-counted-twice", {"Q5"},
      (XP, "                1 if param.find(\"defval\") is not None else 0", "                2 if param.find(\"defval\") is not None else 0")),
    B("counter-engaged-from-three-candidates", {"Q5"},
      (XP, "        if len(member_defs) > 1:", "        if len(member_defs) > 2:")),
    B("nameless-parameter-accepted", {"Q5"},
      (XP, "                if param_name is None:\n                    # Can't find", "                if param_name is None:\n                    continue\n                if param_name is None:\n                    # Can't find")),
    B("return-section-looked-up-and-dropped", {"Q7"},
      (XP, "                docstring += f\"Returns: {return_para.text.strip()}\"", "                pass")),
    B("overload-memory-never-created", {"U1"},
      (XP, "        self._memory = {}\n", "")),
    N("counter-guard-written-as-at-least-two",
      (XP, "        if len(member_defs) > 1:", "        if len(member_defs) >= 2:")),
    N("index-guard-as-two-exits",
      (XP, "        if not member_defs or documenting_index >= len(member_defs):\n            return \"\"", "        if not member_defs:\n            return \"\"\n        if not documenting_index < len(member_defs):\n            return \"\"")),
]
TABLE["C03"] += [
    B("values-insert-special-case-disjunction", {"A9"},
      (PW, "            if method.name == 'insert' and cpp_class == 'gtsam::Values':", "            if method.name == 'insert' or cpp_class == 'gtsam::Values':")),
    B("values-insert-special-case-for-every-class", {"A9"},
      (PW, "            if method.name == 'insert' and cpp_class == 'gtsam::Values':", "            if method.name == 'insert':")),
    N("values-insert-special-case-nested-tests",
      (PW, "            if method.name == 'insert' and cpp_class == 'gtsam::Values':", "            if cpp_class == 'gtsam::Values' and (method.name == 'insert'):")),
]
_NS_SPLIT = "    top_module_namespaces = args.top_module_namespaces.split(\"::\")\n    if top_module_namespaces[0]:\n        top_module_namespaces = [''] + top_module_namespaces\n"
_SUBMODS = "        submodules = []\n        for source in sources[1:]:\n            module_name = Path(source).stem\n            submodules.append(module_name)\n"
TABLE["C16"] += [
    B("pybind-global-namespace-prepended-unconditionally", {"Y6", "Y4"},
      ("scripts/pybind_wrap.py", _NS_SPLIT, "    top_module_namespaces = ['']\n    if args.top_module_namespaces:\n        top_module_namespaces += args.top_module_namespaces.split(\"::\")\n")),
    B("matlab-global-namespace-never-prepended", {"Y6", "Y4"},
      ("scripts/matlab_wrap.py", "    if top_module_namespaces[0]:\n        top_module_namespaces = [''] + top_module_namespaces\n", "")),
    N("pybind-namespace-option-normalised-by-prefix-test",
      ("scripts/pybind_wrap.py", _NS_SPLIT, "    top_module_namespaces = args.top_module_namespaces.split(\"::\")\n    if not args.top_module_namespaces.startswith(\"::\") and args.top_module_namespaces:\n        top_module_namespaces = [''] + top_module_namespaces\n")),
    N("pybind-namespace-option-stripped-then-prefixed",
      ("scripts/pybind_wrap.py", _NS_SPLIT, "    top_module_namespaces = [c for c in args.top_module_namespaces.split(\"::\") if c]\n    top_module_namespaces = [''] + top_module_namespaces\n")),
    B("main-file-taken-off-the-callers-list", {"Y5"},
      (PW, "        main_module = sources[0]\n", "        main_module = sources.pop(0)\n"),
      (PW, "        for source in sources[1:]:\n", "        for source in sources:\n")),
    N("initialiser-names-by-comprehension",
      (PW, _SUBMODS, "        submodules = [Path(source).stem for source in sources[1:]]\n")),
    B("initialiser-names-include-the-main-file", {"Y2"},
      (PW, _SUBMODS, "        submodules = [Path(source).stem for source in sources]\n")),
]
TABLE["C14"] += [
    B("package-folder-created-after-an-existence-test-only", {"R9"},
      (MW, "                if not osp.isdir(path_to_folder):\n                    try:\n                        os.makedirs(path_to_folder, exist_ok=True)\n                    except OSError:\n                        pass\n",
       "                if not osp.isdir(path_to_folder):\n                    os.makedirs(path_to_folder)\n", 0)),
    N("package-folder-created-with-exist-ok-only",
      (MW, "                if not osp.isdir(path_to_folder):\n                    try:\n                        os.makedirs(path_to_folder, exist_ok=True)\n                    except OSError:\n                        pass\n",
       "                os.makedirs(path_to_folder, exist_ok=True)\n", 1)),
]
TABLE["C15"] += [
    B("boost-exports-walk-all-registered-classes", {"X2"},
      (MW, "            if self.use_boost_serialization and \\\n                cls.original.namespaces() and self._has_serialization(cls):\n                boost_class_export_guid += 'BOOST_CLASS_EXPORT_GUID({}, \"{}\");\\n'.format(\n                    class_name_sep, class_name)\n", ""),
      (MW, "        # Generate the typedef instances string\n", "        for cls in filter(self._has_serialization, self.classes):\n            if self.use_boost_serialization:\n                boost_class_export_guid += 'BOOST_CLASS_EXPORT_GUID({1}, \"{0}\");\\n'.format(*self.get_class_name(cls))\n        # Generate the typedef instances string\n")),
]
TABLE["C09"] += [
    B("submodule-memory-keyed-by-leaf-name", {"W6"},
      (PW, "                    and module_var not in self._submodule_vars:\n                self._submodule_vars.append(module_var)", "                    and namespace.name not in self._submodule_vars:\n                self._submodule_vars.append(namespace.name)")),
]
TABLE["C17"] += [
    B("counter-key-from-the-class-without-template-arguments", {"Q8"},
      (XP, "        self.print_if_verbose(f\"Extracting docs for {cpp_class}.{cpp_method}\")\n", "        cpp_class = cpp_class.split('<', 1)[0].strip()\n        self.print_if_verbose(f\"Extracting docs for {cpp_class}.{cpp_method}\")\n")),
]
TABLE["C09"] += [
    B("function-template-arguments-spelt-with-the-flattened-name", {"W8"},
      (TI + "function.py", "            instantiation_list = [x.to_cpp() for x in self.instantiations]", "            instantiation_list = [\"::\".join(x.namespaces + [x.instantiated_name()]) for x in self.instantiations]")),
]
for _p in ("C06", "C11", "C05", "C10"):
    TABLE[_p] += [
        B("templated-method-object-rebound-to-its-spelling", {"U1"},
          (MW, "            method_name = method.to_cpp()\n            obj_start = 'obj->'\n", "            method_name = method.to_cpp()\n            obj_start = 'obj->'\n            if method.instantiations:\n                method = method.to_cpp()\n")),
    ]
_TO_CPP_TWICE = (IP + "type.py", "        if self.instantiations:\n            cpp_name = self.name + \"<{}>\".format(\", \".join(\n                [inst.to_cpp() for inst in self.instantiations]))\n        else:\n            cpp_name = self.name\n",
                 "        cpp_name = self.name\n        if self.instantiations and all(inst.to_cpp() for inst in self.instantiations):\n            cpp_name += \"<{}>\".format(\", \".join(inst.to_cpp() for inst in self.instantiations))\n")
TABLE["C19"] += [
    B("types-rendered-twice-per-level-and-compared-while-parsing", {"Z6"},
      _TO_CPP_TWICE,
      (IP + "template.py", "                    self.instantiations.append(x)\n", "                    if x not in self.instantiations:\n                        self.instantiations.append(x)\n")),
    # the renderer alone is not reached while parsing: parse cost (this property) is unaffected
    N("types-rendered-twice-per-level-outside-parsing", _TO_CPP_TWICE),
]
TABLE["C12"] += [
    N("comment-skipper-as-alternation-of-the-two-forms",
      (IP + "module.py", "from pyparsing import (ParseResults, ZeroOrMore,  # type: ignore\n                       cppStyleComment, stringEnd)", "from pyparsing import (ParseResults, ZeroOrMore,  # type: ignore\n                       cStyleComment, dblSlashComment, stringEnd)"),
      (IP + "module.py", "rule.ignore(cppStyleComment)", "rule.ignore(cStyleComment | dblSlashComment)")),
    B("comment-skipper-block-comments-only", {"L1"},
      (IP + "module.py", "from pyparsing import (ParseResults, ZeroOrMore,  # type: ignore\n                       cppStyleComment, stringEnd)", "from pyparsing import (ParseResults, ZeroOrMore,  # type: ignore\n                       cStyleComment, stringEnd)"),
      (IP + "module.py", "rule.ignore(cppStyleComment)", "rule.ignore(cStyleComment)")),
]
TABLE["C17"] += [
    B("nameless-parameter-flag-set-to-its-initial-value", {"Q5"},
      (XP, "                    eliminate = True\n                    continue", "                    eliminate = False\n                    continue")),
    B("remembered-index-never-read-back", {"Q5"},
      (XP, "                documenting_index = self._memory[function_key]\n", "")),
    B("replacement-looks-at-group-one", {"Q1"},
      (PW, "            escape = match.group(0)", "            escape = match.group(1)")),
    B("replacement-tests-the-wrong-character", {"Q1"},
      (PW, "            if escape[1] != 'x':", "            if escape[2] != 'x':")),
    B("replacement-passes-hex-escapes-through", {"Q1"},
      (PW, "            if escape[1] != 'x':", "            if escape[1] == 'x':")),
]
TABLE["C09"] += [
    B("variable-default-never-reaches-the-value-slot", {"W9"},
      (PW, "            variable_value = variable.default\n", "")),
]
TABLE["C03"] += [
    B("includes-of-namespaces-above-the-top-namespace-dropped", {"A3"},
      (PW, "                    wrapped += wrapped_namespace\n                    includes += includes_namespace\n        else:", "                    wrapped += wrapped_namespace\n        else:")),
]
TABLE["C10"] += [
    B("serialize-routine-named-after-the-template", {"T9"},
      (MW, "                    body += self.wrap_collector_function_serialize(\n                        collector_func[1].name,", "                    body += self.wrap_collector_function_serialize(\n                        collector_func[1].original.name,")),
]
TABLE["C05"] += [
    B("role-withheld-for-methods-only", {"I6"},
      (MW, "            if is_method or is_static_method or is_property:\n                role = None", "            if is_method or is_static_method and is_property:\n                role = None")),
    N("role-withheld-by-one-isinstance-of-a-tuple",
      (MW, "            if is_method or is_static_method or is_property:\n                role = None", "            if isinstance(extra, (parser.Method, parser.StaticMethod, parser.Variable)):\n                role = None")),
]
TABLE["C18"] += [
    B("matrix-reader-skips-the-first-column", {"K9"},
      (H, "  for (int j=0;j<n;j++) for (int i=0;i<m;i++,data++) A(i,j) = *data;", "  for (int j=1;j<n;j++) for (int i=0;i<m;i++,data++) A(i,j) = *data;")),
    B("vector-writer-counts-downwards", {"K9"},
      (H, "  for (int i=0;i<m;i++) data[i]=v(i);", "  for (int i=0;i<m;i--) data[i]=v(i);")),
    B("vector-guard-accepts-only-non-doubles", {"K10"},
      (H, "  if (mxIsDouble(array)==false || n!=1) error(\"unwrap<vector>: not a vector\");", "  if (mxIsDouble(array)==true || n!=1) error(\"unwrap<vector>: not a vector\");", 0)),
    B("vector-guard-conjunction", {"K10"},
      (H, "  if (mxIsDouble(array)==false || n!=1) error(\"unwrap<vector>: not a vector\");", "  if (mxIsDouble(array)==false && n!=1) error(\"unwrap<vector>: not a vector\");", 1)),
    B("handle-guard-accepts-a-column-of-two", {"K10"},
      (H, "    || mxGetM(mxh) != 1 || mxGetN(mxh) != 1) error(", "    || mxGetM(mxh) != 2 || mxGetN(mxh) != 1) error(")),
    B("string-guard-inverted", {"K10"},
      (H, "  if (data==NULL) error(\"unwrap<string>: not a character array\");", "  if (data!=NULL) error(\"unwrap<string>: not a character array\");")),
    B("registry-guard-inverted", {"K10"},
      (H, "    if(!rttiRegistry)", "    if(rttiRegistry)")),
    B("matrix-created-complex", {"K11"},
      (H, "  mxArray *result = mxCreateDoubleMatrix(m, n, mxREAL);", "  mxArray *result = mxCreateDoubleMatrix(m, n, mxCOMPLEX);")),
    B("scalar-array-of-two-elements", {"K11"},
      (H, "  mwSize dims[1]; dims[0]=1;", "  mwSize dims[1]; dims[0]=2;")),
    B("enum-array-empty", {"K11"},
      (H, "  mxArray* a = mxCreateDoubleMatrix(1, 1, mxREAL);", "  mxArray* a = mxCreateDoubleMatrix(0, 1, mxREAL);")),
    B("virtual-constructor-called-with-two-inputs", {"K12"},
      (H, "    nargin = 3;", "    nargin = 2;")),
    B("void-marker-overwrites-the-pointer", {"K12"},
      (H, "    input[2] = mxCreateString(\"void\");", "    input[1] = mxCreateString(\"void\");")),
    B("handle-read-from-element-one", {"K12"},
      (H, "  mxArray* mxh = mxGetProperty(obj,0, propertyName.c_str());", "  mxArray* mxh = mxGetProperty(obj,1, propertyName.c_str());", 0)),
    B("class-name-buffer-without-terminator", {"K12"},
      (H, "    char *buf = new char[strLen+1];", "    char *buf = new char[strLen+0];")),
    B("virtual-object-never-created", {"K12"},
      (H, "    result = create_object(matlabName, &void_ptr, isVirtual, typeid(*shared_ptr).name());", "    ;")),
    B("unknown-type-wrapped-silently", {"K13"},
      (H, "  error(\"wrap internal error: attempted wrap of invalid type\");", "  ;")),
    N("vector-guard-written-with-negation",
      (H, "  if (mxIsDouble(array)==false || n!=1) error(\"unwrap<vector>: not a vector\");", "  if (!mxIsDouble(array) || !(n==1)) error(\"unwrap<vector>: not a vector\");", 0)),
    N("handle-guard-as-negated-conjunction",
      (H, "  if (mxGetClassID(mxh) != mxUINT32OR64_CLASS || mxIsComplex(mxh)\n    || mxGetM(mxh) != 1 || mxGetN(mxh) != 1) error(",
       "  if (!(mxGetClassID(mxh) == mxUINT32OR64_CLASS && !mxIsComplex(mxh)\n    && mxGetM(mxh) == 1 && mxGetN(mxh) == 1)) error(")),
    N("matrix-writer-with-compound-step",
      (H, "  for (int j=0;j<n;j++) for (int i=0;i<m;i++,data++) *data = A(i,j);", "  for (int j=0;j<n;j+=1) for (int i=0;i<m;i+=1,data++) *data = A(i,j);")),
]
TABLE["C17"] += [
    B("hex-escape-pattern-misses-a-digit", {"Q1"},
      (PW, "re.sub(r'\\\\(x[0-9a-f]{2}|.)'", "re.sub(r'\\\\(x[1-9a-f]{2}|.)'")),
]
TABLE["C10"] += [
    B("serialize-template-filled-without-its-namespace", {"T10"},
      (MW, "        return WrapperTemplate.collector_function_serialize.format(\n            class_name=class_name, full_name=full_name, namespace=namespace)", "        return WrapperTemplate.collector_function_serialize.format(\n            class_name=class_name, full_name=full_name)")),
]
TABLE["C07"] += [
    B("typedef-target-matched-by-name-only", {"V8"},
      (IP + "namespace.py", "            classes_and_funcs = (c for c in namespace.content\n                                 if isinstance(c, (Class, GlobalFunction, ForwardDeclaration)))", "            classes_and_funcs = (c for c in namespace.content\n                                 if hasattr(c, 'name'))")),
]
_NESTED_WALK = "    def instantiate_template_args(typename):\n        for instantiation in typename.instantiations:\n            if instantiation.name in template_typenames:\n                template_idx = template_typenames.index(instantiation.name)\n                instantiation.name = instantiations[template_idx]\n            else:\n                instantiate_template_args(instantiation)\n\n    instantiate_template_args(ctype.typename)\n"
_NESTED_WALK_LAZY_OK = "    def parameter_uses(typename):\n        for instantiation in typename.instantiations:\n            if instantiation.name in template_typenames:\n                yield instantiation\n            else:\n                yield from parameter_uses(instantiation)\n\n    for use in parameter_uses(ctype.typename):\n        template_idx = template_typenames.index(use.name)\n        use.name = instantiations[template_idx]\n"
_NESTED_WALK_LAZY_BAD = "    def template_args(typename):\n        for instantiation in typename.instantiations:\n            yield instantiation\n            yield from template_args(instantiation)\n\n    for template_arg in template_args(ctype.typename):\n        if template_arg.name in template_typenames:\n            template_idx = template_typenames.index(template_arg.name)\n            concrete = instantiations[template_idx]\n            template_arg.namespaces = template_arg.namespaces + concrete.namespaces\n            template_arg.name = concrete.name\n            template_arg.instantiations = deepcopy(concrete.instantiations)\n"
for _p, _r in (("C02", "S12"), ("C09", "W5"), ("C04", "B8"), ("C13", "P1"), ("C08", "N7")):
    TABLE[_p] += [N("nested-walk-as-a-generator-of-parameter-uses", (HP, _NESTED_WALK, _NESTED_WALK_LAZY_OK))]
TABLE["C02"] += [B("nested-walk-rescans-what-it-grafted", {"S12"}, (HP, _NESTED_WALK, _NESTED_WALK_LAZY_BAD))]
TABLE["C01"] += [
    B("character-literals-left-to-the-word-alternative", {"G12"},
      (IP + "tokens.py", "        QuotedString(\"'\") ^  # parse single quoted strings\n", "")),
]
for _p, _r in (("C11", "H11"), ("C06", "M11")):
    TABLE[_p] += [
        B("pair-element-copied-unless-shared-or-reference", {_r},
          (MW, "            if not (return_type.is_shared_ptr or return_type.is_ptr):", "            if not (return_type.is_shared_ptr or return_type.is_ref):")),
        B("single-return-handed-through-only-when-shared", {_r},
          (MW, "            if ctype.is_shared_ptr or ctype.is_ptr:", "            if ctype.is_shared_ptr or ctype.is_shared_ptr:")),
    ]
TABLE["C06"] += [
    B("free-function-callee-without-its-name", {"M10"},
      (MW, "            method_name = self._format_global_function(method, '::')\n            method_name += method.name\n", "            method_name = self._format_global_function(method, '::')\n")),
]
TABLE["C17"] += [
    B("empty-docstring-whenever-there-are-candidates", {"Q4"},
      (XP, "        if not member_defs or documenting_index >= len(member_defs):", "        if member_defs or documenting_index >= len(member_defs):")),
    B("counter-engaged-for-a-single-candidate", {"Q5"},
      (XP, "        if len(member_defs) > 1:", "        if len(member_defs) >= 1:")),
    B("optional-parameters-to-skip-never-recorded", {"Q4"},
      (XP, "                    ignored_params.append(declname.text)\n", "                    pass\n")),
    N("empty-docstring-guard-as-length-tests",
      (XP, "        if not member_defs or documenting_index >= len(member_defs):", "        if len(member_defs) == 0 or not documenting_index < len(member_defs):")),
]
TABLE["C03"] += [
    B("include-lines-above-the-top-namespace-dropped", {"A10"},
      (PW, "                    include = include.replace('<', '\"').replace('>', '\"')\n                    includes += include\n                if isinstance(element, parser.Namespace):", "                    include = include.replace('<', '\"').replace('>', '\"')\n                if isinstance(element, parser.Namespace):")),
    B("enum-bindings-computed-and-dropped", {"A10"},
      (PW, "                elif isinstance(element, parser.Enum):\n                    wrapped += self.wrap_enum(element)", "                elif isinstance(element, parser.Enum):\n                    self.wrap_enum(element)")),
]
TABLE["C16"] += [
    B("submodule-switch-on-by-default", {"Y3"},
      ("scripts/pybind_wrap.py", "    arg_parser.add_argument(\"--is_submodule\",\n                            default=False,", "    arg_parser.add_argument(\"--is_submodule\",\n                            default=True,")),
]
for _p, _r in (("C18", "K14"), ("C11", "H12")):
    TABLE[_p] += [
        B("unsigned-64-bit-scalars-read-as-double", {_r},
          (H, "    case mxUINT64_CLASS:\n      return (T) *(std::uint64_t*) mxGetData(array);\n", "")),
        B("signed-64-bit-scalars-read-as-unsigned", {_r},
          (H, "      return (T) *(std::int64_t*) mxGetData(array);", "      return (T) *(std::uint64_t*) mxGetData(array);")),
    ]
TABLE["C12"] += [
    B("matlab-interface-files-read-without-newline-translation", {"L6"},
      (MW, "            with open(file, 'r', encoding=\"UTF-8\") as f:", "            with open(file, 'r', encoding=\"UTF-8\", newline='') as f:")),
]

TABLE["C14"] += [
    B("matlab-interface-files-decoded-with-the-locale", {"R10"},
      (MW, "            with open(file, 'r', encoding=\"UTF-8\") as f:", "            with open(file, 'r') as f:")),
    B("matlab-outputs-encoded-with-the-locale", {"R10"},
      (MW, "                    with open(path_to_file, 'w', encoding=\"UTF-8\") as f:", "                    with open(path_to_file, 'w') as f:")),
    N("submodule-files-through-pathlib-with-encodings",
      (PW, "        with open(module_name + \".cpp\", \"w\", encoding=\"UTF-8\") as f:\n            f.write(cc_content)", "        Path(module_name + \".cpp\").write_text(cc_content, encoding=\"UTF-8\")")),
]
TABLE["C15"] += [
    B("ignore-entries-matched-as-prefixes", {"X5"},
      (PW, "        if cpp_class in self.ignore_classes:\n            return \"\"\n        if instantiated_class.parent_class:", "        if any(cpp_class.startswith(entry) for entry in self.ignore_classes if entry):\n            return \"\"\n        if instantiated_class.parent_class:")),
]
TABLE["C16"] += [
    B("initialisers-declared-in-alphabetical-order", {"Y2"},
      (PW, _SUBMODS, "        submodules = sorted(Path(source).stem for source in sources[1:])\n")),
    N("matlab-files-joined-with-a-line-break",
      (MW, "        content = \"\"\n        modules = {}\n        for file in files:\n            with open(file, 'r', encoding=\"UTF-8\") as f:\n                # Keep the files apart: the last line of one file must not run\n                # into the first line of the next.\n                content += f.read() + \"\\n\"\n",
       "        modules = {}\n        texts = []\n        for file in files:\n            with open(file, 'r', encoding=\"UTF-8\") as f:\n                texts.append(f.read())\n        content = \"\\n\".join(texts) + \"\\n\"\n")),
]
TABLE["C17"] += [
    B("argument-less-methods-skip-the-filter", {"Q5"},
      (XP, "        member_defs = []\n\n        # Optional parameters we should ignore", "        member_defs = []\n        if not method_args_names:\n            return list(maybe_member_defs), []\n\n        # Optional parameters we should ignore")),
]
TABLE["C17"] += [
    B("any-argument-count-between-required-and-total", {"Q5"},
      (XP, "            if len(method_args_names) != num_req_params and len(\n                    method_args_names) != num_tot_params:", "            if not num_req_params <= len(method_args_names) <= num_tot_params:")),
    N("arity-filter-as-a-membership-test",
      (XP, "            if len(method_args_names) != num_req_params and len(\n                    method_args_names) != num_tot_params:", "            if len(method_args_names) not in (num_req_params, num_tot_params):")),
    B("high-hex-escapes-written-as-octal-bytes", {"Q1"},
      (PW, "            return '\\\\%03o' % code if code < 0x80 else '\\\\u%04x' % code", "            return '\\\\%03o' % code")),
]
TABLE["C10"] += [
    B("constructor-names-the-base-through-the-type-formatter", {"T13"},
      (MW, "            parent_name = \".\".join(\n                [ns for ns in parent_name.namespaces if ns] + [\n                    self._format_type_name(parent_name,\n                                           separator=\".\",\n                                           include_namespace=False)\n                ])", "            parent_name = self._format_type_name(parent_name, separator=\".\")")),
    B("namespace-without-classes-returns-before-its-functions", {"T14"},
      (MW, "        if inner_namespace:\n            self.content.append(inner_namespace_scope)\n", "        if inner_namespace:\n            if not inner_namespace_scope:\n                return wrapped\n            self.content.append(inner_namespace_scope)\n")),
]

# ownership along access paths (a shallow copy shares everything below its first level)
_SHALLOW_TYPE = ((HP, "from copy import deepcopy", "import copy\nfrom copy import deepcopy"),
                 (HP, "    ctype = deepcopy(ctype)", "    ctype = copy.copy(ctype)"))
_ARGS_COPY = "            return ArgumentList([copy.copy(arg) for arg in args.list()])"
for _p, _r in (("C01", "G8"), ("C02", "S7"), ("C13", "P1"), ("C09", "W5")):
    TABLE[_p] += [B("instantiate-type-shallow-copy", {_r}, *_SHALLOW_TYPE)]
TABLE["C01"] += [
    B("default-expansion-shares-the-list", {"G8"}, (MW, _ARGS_COPY, "            return ArgumentList(args.list())")),
    B("default-expansion-shares-the-arguments", {"G8"}, (MW, _ARGS_COPY, "            return ArgumentList([arg for arg in args.list()])")),
    B("default-expansion-keeps-the-argument-list", {"G8"}, (MW, "            method2.args = args_copy(method.args)\n            method2.args.backup = method.args.backup\n", "")),
    N("default-expansion-deep-copy", (MW, _ARGS_COPY, "            return ArgumentList(copy.deepcopy(args.list()))")),
    N("default-expansion-list-alias", (MW, "                method.args.list().remove(arg)", "                remaining = method.args.list()\n                remaining.remove(arg)")),
]

# an id is allocated while the text is formatted: the text must then be emitted on every path
_SETTER_APPEND = "            properties.append(setter)\n"
TABLE["C05"] += [
    B("setter-allocated-but-appended-conditionally", {"I3"},
      (MW, _SETTER_APPEND, "            if not propty.ctype.is_const:\n                properties.append(setter)\n")),
    N("setter-skipped-together-with-its-id",
      (MW, "            # Setter doesn't need varargin since it needs just one input.\n",
       "            if propty.ctype.is_const:\n                continue\n            # Setter doesn't need varargin since it needs just one input.\n")),
]
TABLE["C16"] += [
    B("blank-submodule-not-written", {"Y7"},
      (PW, "        # Wrap the read-in content\n        cc_content = self.wrap_file(content, module_name=module_name)\n",
       "        if not content.strip():\n            return\n        # Wrap the read-in content\n        cc_content = self.wrap_file(content, module_name=module_name)\n")),
    B("submodule-written-only-when-changed", {"Y7"},
      (PW, "        with open(module_name + \".cpp\", \"w\", encoding=\"UTF-8\") as f:\n            f.write(cc_content)\n\n    def wrap(self, sources, main_module_name):",
       "        if cc_content.strip():\n            with open(module_name + \".cpp\", \"w\", encoding=\"UTF-8\") as f:\n                f.write(cc_content)\n\n    def wrap(self, sources, main_module_name):")),
    B("submodule-written-under-another-name", {"Y7"},
      (PW, "        with open(module_name + \".cpp\", \"w\", encoding=\"UTF-8\") as f:\n            f.write(cc_content)\n\n    def wrap(self, sources, main_module_name):",
       "        with open(source + \".cpp\", \"w\", encoding=\"UTF-8\") as f:\n            f.write(cc_content)\n\n    def wrap(self, sources, main_module_name):")),
    N("submodule-written-with-write-text",
      (PW, "        with open(module_name + \".cpp\", \"w\", encoding=\"UTF-8\") as f:\n            f.write(cc_content)\n\n    def wrap(self, sources, main_module_name):",
       "        Path(module_name + \".cpp\").write_text(cc_content, encoding=\"UTF-8\")\n\n    def wrap(self, sources, main_module_name):")),
    B("files-parsed-one-by-one-and-spliced", {"Y1"},
      (MW, "                content += f.read() + \"\\n\"\n\n        # Parse the contents of the interface file\n        parsed_result = parser.Module.parseString(content)\n",
       "                content = f.read()\n            parsed_file = parser.Module.parseString(content)\n            if parsed_result is None:\n                parsed_result = parsed_file\n            else:\n                parsed_result.content.extend(parsed_file.content)\n"),
      (MW, "        content = \"\"\n        modules = {}\n", "        parsed_result = None\n        modules = {}\n")),
]

# pair element by position (C11 H13 / C06 M12); ids without a role outside the virtual pair (C11 H14)
_PAIR_COPY = "                    .format(name=self._format_type_name(return_type.typename),\n                            shared_obj='pairResult.' + pair_value)"
for _p, _r in (("C11", "H13"), ("C06", "M12")):
    TABLE[_p] += [
        B("pair-value-copied-from-first", {_r}, (MW, _PAIR_COPY, "                    .format(name=self._format_type_name(return_type.typename),\n                            shared_obj='pairResult.first')")),
        B("pair-plain-value-from-second", {_r}, (MW, "            return_type_text += 'wrap< {0} >(pairResult.{1});{2}'.format(\n                self._format_type_name(return_type.typename, separator='.'),\n                pair_value, new_line)",
                                                 "            return_type_text += 'wrap< {0} >(pairResult.second);{2}'.format(\n                self._format_type_name(return_type.typename, separator='.'),\n                pair_value, new_line)")),
        N("pair-element-through-a-local", (MW, "            shared_obj = 'pairResult.' + pair_value\n\n", "            element = 'pairResult.' + pair_value\n            shared_obj = element\n\n")),
    ]
TABLE["C11"] += [
    B("ignored-method-reserves-an-id", {"H14"},
      (MW, "            if method_name in self.ignore_methods:\n                continue\n", "            if method_name in self.ignore_methods:\n                for _ in method:\n                    self._update_wrapper_id()\n                continue\n")),
]

# enum lookup ranges over the whole scope (C06 M13)
_GE_OLD = "            global_enums = [\n                member.name for member in class_.parent.content\n                if isinstance(member, parser.Enum)\n            ]\n            return arg_type.typename.name in global_enums\n"
TABLE["C06"] += [
    B("global-enum-search-stops-at-the-class", {"M13"},
      (MX, _GE_OLD, "            for member in class_.parent.content:\n                if member is class_:\n                    break\n                if isinstance(member, parser.Enum) and member.name == arg_type.typename.name:\n                    return True\n            return False\n")),
    B("global-enum-search-over-the-first-members", {"M13"},
      (MX, "member.name for member in class_.parent.content\n", "member.name for member in class_.parent.content[:10]\n")),
    B("class-enum-search-skips-the-first", {"M13"},
      (MX, "class_enums = [enum.name for enum in class_.enums]", "class_enums = [enum.name for enum in class_.enums[1:]]")),
    N("global-enum-search-as-a-loop", (MX, _GE_OLD, "            for member in class_.parent.content:\n                if isinstance(member, parser.Enum) and member.name == arg_type.typename.name:\n                    return True\n            return False\n")),
    N("global-enum-search-with-any", (MX, _GE_OLD, "            return any(isinstance(member, parser.Enum) and member.name == arg_type.typename.name\n                       for member in class_.parent.content)\n")),
    N("global-enum-search-break-when-found", (MX, _GE_OLD, "            found = False\n            for member in class_.parent.content:\n                if isinstance(member, parser.Enum) and member.name == arg_type.typename.name:\n                    found = True\n                    break\n            return found\n")),
]

# build files and scripts agree (C16 Y8)
TABLE["C16"] += [
    B("script-renames-the-boost-switch", {"Y8", "Y3"}, ("scripts/pybind_wrap.py", '"--use-boost-serialization"', '"--use_boost_serialization"')),
    B("script-turns-the-submodule-switch-into-an-option", {"Y8", "Y3"}, ("scripts/pybind_wrap.py", '"--is_submodule",\n                            default=False,\n                            action="store_true")', '"--is_submodule",\n                            default="")')),
    B("cmake-cuts-every-extension", {"Y8"}, ("cmake/PybindWrap.cmake", "get_filename_component(interface ${interface_file} NAME_WLE)", "get_filename_component(interface ${interface_file} NAME_WE)")),
    B("cmake-passes-an-undeclared-option", {"Y8"}, ("cmake/MatlabWrap.cmake", "--top_module_namespaces ${moduleName} --ignore ${ignore_classes}", "--top_module_namespaces ${moduleName} --ignore_classes ${ignore_classes}")),
    B("matlab-gateway-file-renamed", {"Y8"}, (MW, "        return self.module_name + '_wrapper'", "        return self.module_name + '_gateway'")),
    N("cmake-comment-added", ("cmake/PybindWrap.cmake", "  # Convert .i file names to .cpp file names.", "  # Convert .i file names to .cpp file names (--not-an-option in a comment).")),
]

# shape of named results (C01 G13)
TABLE["C01"] += [
    B("class-base-kept-in-its-wrapper", {"G13"},
      (IP + "classes.py", "            if isinstance(parent_class, Iterable):\n                parent_class = parent_class[0]  # type: ignore\n", "")),
    B("argument-type-kept-in-its-wrapper", {"G13"},
      (IP + "function.py", "        if isinstance(ctype, Iterable):\n            self.ctype = ctype[0]  # type: ignore\n        else:\n            self.ctype = ctype\n", "        self.ctype = ctype\n")),
    B("forward-declaration-base-as-alternation", {"G13"},
      (IP + "declaration.py", "from .type import Typename", "from .type import TemplatedType, Typename"),
      (IP + "declaration.py", "            Optional(COLON + Typename.rule(\"parent_type\")) +", "            Optional(COLON + (TemplatedType.rule ^ Typename.rule)(\"parent_type\")) +")),
    B("forward-declaration-base-as-alternation-unwrapped", {"G18"},      # a templated base is accepted and stored without the markers of its arguments
      (IP + "declaration.py", "from .type import Typename", "from .type import TemplatedType, Typename"),
      (IP + "declaration.py", "            Optional(COLON + Typename.rule(\"parent_type\")) +", "            Optional(COLON + (TemplatedType.rule ^ Typename.rule)(\"parent_type\")) +"),
      (IP + "declaration.py", "        if parent_type:\n            self.parent_type = parent_type\n", "        if parent_type:\n            parent_type = parent_type[0]\n            if isinstance(parent_type, TemplatedType):\n                parent_type = parent_type.typename\n            self.parent_type = parent_type\n")),
]

# round 6: package paths by evaluation (C10 T3 = C15 X6), positions in the list itself (C13 P7 = C02 S13), docstring literal (C09 W11), depth-relative guards (C03 A3)
_ENUM_PATH = "                    module = \"\".join([\n                        '+' + x + '/' for x in namespace.full_namespaces()[1:]\n                    ])[:-1]\n"
for _p, _r in (("C10", "T3"), ("C15", "X6")):
    TABLE[_p] += [
        B("namespace-enum-filed-under-the-leaf-package", {_r}, (MW, _ENUM_PATH, "                    module = \"/\".join('+' + x for x in namespace.full_namespaces()[-1:])\n")),
        N("namespace-enum-path-joined-with-slash", (MW, _ENUM_PATH, "                    module = \"/\".join('+' + x for x in namespace.full_namespaces()[1:])\n")),
    ]
_SCOPED = "    for idx, template in enumerate(template_typenames):\n"
for _p, _r in (("C13", "P7"), ("C02", "S13")):
    TABLE[_p] += [
        B("scoped-parameter-position-in-a-sorted-copy", {_r}, (HP, _SCOPED, "    for idx, template in enumerate(sorted(template_typenames, key=len, reverse=True)):\n")),
        N("scoped-parameter-loop-over-a-list-copy", (HP, _SCOPED, "    for idx, template in enumerate(list(template_typenames)):\n")),
    ]
TABLE["C09"] += [
    B("docstring-literal-as-json", {"W11"},
      (PW, "        body = re.sub(r'\\\\(x[0-9a-f]{2}|.)', bounded, repr(text)[1:-1])\n        return '\"' + body.replace('\"', r'\\\"') + '\"'\n", "        import json\n        return json.dumps(text)\n")),
]

# round 7
TABLE["C10"] += [
    B("ignore-table-is-a-string", {"T15"}, (MX, "    ignore_methods: Tuple = ('pickle', )", "    ignore_methods: Tuple = ('pickle')")),
    N("ignore-table-as-a-list", (MX, "    ignore_methods: Tuple = ('pickle', )", "    ignore_methods: Tuple = ['pickle']")),
    B("preamble-skips-unserializable-classes", {"T1"},
      (MW, "            # Generate the _deleteAllObjects method\n", "            if self.use_boost_serialization:\n                if not self._has_serialization(cls):\n                    continue\n            # Generate the _deleteAllObjects method\n")),
]
for _p, _r in (("C11", "H5"), ("C18", "K7")):
    TABLE[_p] += [
        B("unwrap-shared-ptr-returns-a-non-owning-alias", {_r}, (H, "  return *spp;\n}", "  return std::shared_ptr<Class>(std::shared_ptr<Class>(), spp->get());\n}")),
    ]
for _p, _r in (("C11", "H12"), ("C18", "K14")):
    TABLE[_p] += [
        B("uint32-read-as-int32", {_r}, (H, "    case mxUINT64_CLASS:\n      return (T) *(std::uint64_t*) mxGetData(array);\n",
                                        "    case mxUINT64_CLASS:\n      return (T) *(std::uint64_t*) mxGetData(array);\n    case mxINT32_CLASS:\n    case mxUINT32_CLASS:\n      return (T) *(std::int32_t*) mxGetData(array);\n")),
        N("int32-read-as-int32", (H, "    case mxUINT64_CLASS:\n      return (T) *(std::uint64_t*) mxGetData(array);\n",
                                  "    case mxUINT64_CLASS:\n      return (T) *(std::uint64_t*) mxGetData(array);\n    case mxINT32_CLASS:\n      return (T) *(std::int32_t*) mxGetData(array);\n    case mxUINT32_CLASS:\n      return (T) *(std::uint32_t*) mxGetData(array);\n")),
    ]
TABLE["C17"] += [
    B("arity-filter-as-a-range", {"Q5"}, (XP, "            if len(method_args_names) != num_req_params and len(\n                    method_args_names) != num_tot_params:",
                                          "            if not num_req_params <= len(method_args_names) <= num_tot_params:")),
    N("arity-filter-as-membership", (XP, "            if len(method_args_names) != num_req_params and len(\n                    method_args_names) != num_tot_params:",
                                     "            if len(method_args_names) not in (num_req_params, num_tot_params):")),
]
TABLE["C16"] += [
    B("additional-files-filtered-by-suffix", {"Y2"}, (PW, "        for source in sources[1:]:\n            module_name = Path(source).stem\n            submodules.append(module_name)\n",
                                                      "        for source in sources[1:]:\n            if Path(source).suffix != '.i':\n                continue\n            module_name = Path(source).stem\n            submodules.append(module_name)\n")),
]
TABLE["C05"] += [
    B("files-of-the-same-size-are-kept", {"I7"},
      (MW, "                with open(path_to_file, 'w', encoding=\"UTF-8\") as f:\n                    f.write(c[1])\n",
       "                if not (osp.isfile(path_to_file) and osp.getsize(path_to_file) == len(c[1].encode('UTF-8'))):\n                    with open(path_to_file, 'w', encoding=\"UTF-8\") as f:\n                        f.write(c[1])\n")),
]

# round 8
_DUNDER_TAIL = "            function_call = \"return py::make_iterator(self->begin(), self->end());\"\n"
TABLE["C07"] += [
    B("unknown-dunder-name-half-wrapped", {"V9"}, (PW, "        if method.name == 'len':\n            function_call = ", "        function_call = \"\"\n        if method.name == 'len':\n            function_call = ")),
    B("unknown-dunder-name-gets-an-empty-body", {"V9"}, (PW, _DUNDER_TAIL, _DUNDER_TAIL + "        else:\n            function_call = \"\"\n")),
    N("unknown-dunder-name-raises", (PW, _DUNDER_TAIL, _DUNDER_TAIL + "        else:\n            raise ValueError(\"unsupported dunder method \" + method.name)\n")),
]

# round 8 (continued)
TABLE["C03"] += [
    B("module-variable-drops-components-by-name", {"A7"}, (PW, "        sub_module_namespaces = namespaces[len(self.top_module_namespaces):]",
                                                          "        sub_module_namespaces = [ns for ns in namespaces if ns not in self.top_module_namespaces]")),
    B("sibling-of-the-top-namespace-accepted", {"A3"}, (PW, "        for i in range(min(len(namespaces1), len(namespaces2))):\n            if namespaces1[i] != namespaces2[i]:\n                return False\n        return True",
                                                       "        if len(namespaces1) >= len(namespaces2):\n            return True\n        return namespaces1 == namespaces2[:len(namespaces1)]")),
    N("prefix-test-by-slices", (PW, "        for i in range(min(len(namespaces1), len(namespaces2))):\n            if namespaces1[i] != namespaces2[i]:\n                return False\n        return True",
                                "        n = min(len(namespaces1), len(namespaces2))\n        return namespaces1[:n] == namespaces2[:n]")),
]
TABLE["C08"] += [
    B("namespace-is-a-sized-container", {"N9"}, (IP + "namespace.py", "    def top_level(self) -> \"Namespace\":", "    def __len__(self) -> int:\n        return len(self.content)\n\n    def top_level(self) -> \"Namespace\":")),
    B("nested-argument-names-flattened-one-level", {"N10"}, (IP + "type.py", "        res = self.name\n        for instantiation in self.instantiations:\n            res += instantiation.instantiated_name()\n        return res",
                                                            "        return self.name + \"\".join([inst.name for inst in self.instantiations])")),
    N("nested-argument-names-by-join", (IP + "type.py", "        res = self.name\n        for instantiation in self.instantiations:\n            res += instantiation.instantiated_name()\n        return res",
                                        "        return self.name + \"\".join([inst.instantiated_name() for inst in self.instantiations])")),
]
TABLE["C01"] += [
    B("namespace-is-a-sized-container", {"G15"}, (IP + "namespace.py", "    def top_level(self) -> \"Namespace\":", "    def __len__(self) -> int:\n        return len(self.content)\n\n    def top_level(self) -> \"Namespace\":")),
]
TABLE["C15"] += [
    B("ignore-entries-prefixed-with-the-top-namespace", {"X8"}, (MW, "        self.ignore_classes = ignore_classes\n", "        self.ignore_classes = [n if '::' in n else top_module_namespace + '::' + n for n in ignore_classes]\n")),
    N("ignore-list-copied", (MW, "        self.ignore_classes = ignore_classes\n", "        self.ignore_classes = list(ignore_classes)\n")),
]
TABLE["C19"] += [
    B("blank-lines-trimmed-by-an-ambiguous-regex", {"Z8"}, (IP + "module.py", "        return Module.rule.parseString(s)[0]", "        import re\n        s = re.sub(r'(\\s*\\n)+$', '\\n', s)\n        return Module.rule.parseString(s)[0]")),
    N("blank-lines-trimmed-by-rstrip", (IP + "module.py", "        return Module.rule.parseString(s)[0]", "        s = s.rstrip() + '\\n'\n        return Module.rule.parseString(s)[0]")),
]

# round 9
TABLE["C05"] += [
    B("every-static-overload-registered-as-the-first", {"I8"},
      (MW, "                         static_overload.name, static_overload)),", "                         static_method[0].name, static_method[0])),")),
    B("every-method-overload-registered-as-the-first", {"I8"},
      (MW, "                             overload.original.name, overload)),", "                             method[0].original.name, method[0])),")),
    B("every-free-overload-registered-as-the-first", {"I8"},
      (MW, "                                                function[i], 'global_function',", "                                                function[0], 'global_function',")),
    N("overload-entry-through-a-local", (MW, "                         static_overload.name, static_overload)),", "                         static_overload.name, [static_overload][0])),")),
    B("gateway-name-changed-in-one-place", {"I3"}, (MW, "        return self.module_name + '_wrapper'", "        return self.module_name + '_gateway'")),
    B("gateway-name-special-cased", {"I3"},
      (MW, "        return self.module_name + '_wrapper'", "        if self.module_name.endswith('_wrapper'):\n            return self.module_name\n        return self.module_name + '_wrapper'")),
    N("free-function-calls-the-named-gateway",
      (MW, "                {varargout}{module_name}_wrapper({num}, varargin{{:}});\n            ''').format(varargout=varargout,",
       "                {varargout}{wrapper}({num}, varargin{{:}});\n            ''').format(varargout=varargout, wrapper=self._wrapper_name(),")),
]
TABLE["C10"] += [
    B("free-function-named-like-an-ignored-method-dropped", {"T16"}, (MW, "            if method in self.ignore_methods:\n                continue\n", "            if method[0].name in self.ignore_methods:\n                continue\n")),
    B("free-functions-filtered-before-grouping", {"T16"}, (MW, "        methods = self._group_methods(methods)\n\n        for method in methods:",
                                                        "        methods = self._group_methods([m for m in methods if m.name not in self.ignore_methods])\n\n        for method in methods:")),
    N("dead-group-filter-removed", (MW, "            if method in self.ignore_methods:\n                continue\n\n            if global_funcs:", "            if global_funcs:")),
    N("groups-through-a-local", (MW, "        methods = self._group_methods(methods)\n\n        for method in methods:", "        groups = self._group_methods(methods)\n\n        for method in groups:")),
]
TABLE["C06"] += [
    B("given-names-joined-into-a-string", {"M4"}, (MW, "        explicit_arg_names = [arg.name for arg in args.list()]", "        explicit_arg_names = ','.join(arg.name for arg in args.list())")),
]
_K3_SIZE_T = "  mxArray *result = scalar(mxUINT32OR64_CLASS);\n  *(size_t*)mxGetData(result) = value;"
for _p, _r in (("C18", "K3"), ("C11", "H15")):
    TABLE[_p] += [
        B("size_t-result-through-unsigned-int", {_r}, (H, _K3_SIZE_T, "  mxArray *result = scalar(mxUINT32OR64_CLASS);\n  *(size_t*)mxGetData(result) = (unsigned int)value;")),
        B("size_t-result-stored-as-int", {_r}, (H, _K3_SIZE_T, "  mxArray *result = scalar(mxUINT32OR64_CLASS);\n  *(int*)mxGetData(result) = value;")),
        B("size_t-result-through-a-double", {_r}, (H, _K3_SIZE_T, "  mxArray *result = scalar(mxUINT32OR64_CLASS);\n  double d = value;\n  *(size_t*)mxGetData(result) = (size_t)d;")),
        N("int-result-stored-widened", (H, "  *(int*)mxGetData(result) = value;", "  *(long*)mxGetData(result) = value;")),
    ]
TABLE["C11"] += [
    B("shape-tests-chosen-by-matlab-class", {"H9"}, (MW, "            if name == 'Vector':\n                var_arg_wrap +=", "            if check_type == 'Vector':\n                var_arg_wrap +=")),
]
TABLE["C06"] += [
    B("shape-tests-chosen-by-matlab-class", {"M2"}, (MW, "            if name == 'Point2':\n                check_statement +=", "            if check_type == 'Point2':\n                check_statement +=")),
]
TK = IP + "tokens.py"
TABLE["C12"] += [
    B("operator-symbol-as-a-character-run", {"L2"}, (TK, "OPERATOR = Or(\n    map(\n        Literal,\n        [", "OPERATOR = Word(\"+-*/%^&|<>=!~\") ^ Or(\n    map(\n        Literal,\n        [")),
    N("identifier-run-with-explicit-body", (TK, "IDENT = Word(alphas + '_', alphanums + '_')", "IDENT = Word(alphas + '_', bodyChars=alphanums + '_')")),
]
XMLP = "gtwrap/xml_parser/xml_parser.py"
TABLE["C17"] += [
    B("index-lookup-restricted-to-kind-class", {"Q5"}, (XMLP, """index_root.find(f"./*[name='{cpp_class}']")""", """index_root.find(f"./compound[@kind='class'][name='{cpp_class}']")""")),
    B("index-lookup-takes-the-first-compound", {"Q5"}, (XMLP, """index_root.find(f"./*[name='{cpp_class}']")""", """index_root.find(f"./*[1][name='{cpp_class}']")""")),
    N("index-lookup-names-the-compound-tag", (XMLP, """index_root.find(f"./*[name='{cpp_class}']")""", """index_root.find(f"./compound[name='{cpp_class}']")""")),
]

# round 10
TABLE["C01"] += [
    B("methods-grouped-by-name", {"G16"},
      (IP + "classes.py", "                    self.methods.append(m)\n", "                    self.methods.insert(max([i + 1 for i, x in enumerate(self.methods) if x.name == m.name] or [len(self.methods)]), m)\n")),
    B("members-sorted-by-name", {"G16"}, (IP + "classes.py", "                elif isinstance(m, Enum):\n                    self.enums.append(m)\n",
                                          "                elif isinstance(m, Enum):\n                    self.enums.append(m)\n            self.static_methods.sort(key=lambda x: x.name)\n")),
    B("namespace-chain-inserted-before-the-last", {"G17"}, (IP + "utils.py", "        namespaces = [ancestor.name] + namespaces", "        namespaces.insert(-1, ancestor.name)")),
    B("namespace-chain-innermost-first", {"G17"}, (IP + "utils.py", "        namespaces = [ancestor.name] + namespaces", "        namespaces = namespaces + [ancestor.name]")),
    N("namespace-chain-inserted-in-front", (IP + "utils.py", "        namespaces = [ancestor.name] + namespaces", "        namespaces.insert(0, ancestor.name)")),
]
TIH = "gtwrap/template_instantiator/helpers.py"
TABLE["C02"] += [
    B("nested-walk-stops-at-the-first-concrete-argument", {"S2"},
      (TIH, "            else:\n                instantiate_template_args(instantiation)\n", "            elif not instantiation.instantiations:\n                return\n            else:\n                instantiate_template_args(instantiation)\n")),
    B("nested-walk-first-argument-only", {"S2"},
      (TIH, "            else:\n                instantiate_template_args(instantiation)\n", "            else:\n                instantiate_template_args(instantiation)\n            break\n")),
    N("nested-walk-skips-leaves-explicitly", (TIH, "            else:\n                instantiate_template_args(instantiation)\n",
                                              "            elif not instantiation.instantiations:\n                continue\n            else:\n                instantiate_template_args(instantiation)\n")),
]
_OPS_TAIL = "                res += template.format(\"py::self {0} py::self\".format(\n                    op.operator))\n        return res\n"
TABLE["C03"] += [
    B("operators-unique-by-symbol", {"A11"}, (PW, "        for op in operators:\n            if op.operator == \"[]\":  # __getitem__",
                                             "        for op in {o.operator: o for o in operators}.values():\n            if op.operator == \"[]\":  # __getitem__")),
    B("unary-operators-bound-as-binary", {"A11"}, (PW, "            elif op.is_unary:\n", "            elif op.is_unary and op.operator == '-':\n")),
    N("operators-through-a-list-of-pieces", (PW, _OPS_TAIL, "                res += template.format(\"py::self {0} py::self\".format(\n                    op.operator))\n        pieces = [res]\n        return \"\".join(pieces)\n")),
]
TABLE["C04"] += [
    B("free-function-scope-relative-to-the-top-module", {"B6"}, (PW, "            return '::'.join(namespaces[idx:] + [name])", "            return '::'.join(namespaces[len(self.top_module_namespaces):] + [name])")),
    B("free-function-named-serialize-dropped", {"B12"}, (PW, "            function_name = function.name\n", "            function_name = function.name\n            if function_name == 'serialize':\n                continue\n")),
    N("free-function-scope-by-slice", (PW, "            idx = 1 if not namespaces[0] else 0\n            return '::'.join(namespaces[idx:] + [name])", "            scope = namespaces[1:] if not namespaces[0] else namespaces\n            return '::'.join(scope + [name])")),
]
for _p, _r in (("C07", "V10"), ("C01", "G13")):
    TABLE[_p] += [
        B("base-clause-parsed-as-a-list-first-kept", {_r},
          (IP + "classes.py", "from pyparsing import Literal, Optional, Word, alphas", "from pyparsing import Literal, Optional, Word, alphas, delimitedList"),
          (IP + "classes.py", "    _parent = COLON + (TemplatedType.rule ^ Typename.rule)(\"parent_class\")", "    _parent = COLON + delimitedList(TemplatedType.rule ^ Typename.rule)(\"parent_class\")")),
    ]
TABLE["C07"] += [
    B("namespace-walk-advances-only-for-named-scopes", {"V11"},
      (IP + "utils.py", "        namespaces = [ancestor.name] + namespaces\n        ancestor = ancestor.parent", "        namespaces = [ancestor.name] + namespaces\n        if ancestor.parent != '':\n            ancestor = ancestor.parent")),
    N("namespace-walk-with-explicit-break", (IP + "utils.py", "        namespaces = [ancestor.name] + namespaces\n        ancestor = ancestor.parent",
                                            "        namespaces = [ancestor.name] + namespaces\n        if not ancestor.parent:\n            break\n        ancestor = ancestor.parent")),
]
TIN = "gtwrap/template_instantiator/namespace.py"
TABLE["C08"] += [
    B("typedef-of-a-listed-combination-dropped", {"N11"},
      (TIN, "            original_element = typedef_targets[id(typedef_inst)]\n",
       "            original_element = typedef_targets[id(typedef_inst)]\n            tmpl = getattr(original_element, 'template', None)\n"
       "            if tmpl and any(list(c) == list(typedef_inst.typename.instantiations) for c in itertools.product(*tmpl.instantiations)):\n                continue\n")),
    B("typedef-of-a-function-template-dropped", {"N11", "N2"},
      (TIN, "            elif isinstance(original_element, parser.GlobalFunction):\n                typedef_content.append(", "            elif isinstance(original_element, parser.GlobalFunction) and False:\n                typedef_content.append(")),
    B("sub-namespace-walk-late-bound", {"N2"},
      (IP + "namespace.py", "    found_namespaces = [\n        ns for ns in sub_namespaces if ns.name == str_namespaces[0]\n    ]", "    found_namespaces = [\n        ns for ns in sub_namespaces if ns.name == str_namespaces[-1]\n    ]")),
]
for _p, _r in (("C09", "W13"), ("C04", "B5")):
    TABLE[_p] += [
        B("const-shared-pointer-property-writable", {_r}, (PW, "                        if prop.ctype.is_const else \"readwrite\",", "                        if prop.ctype.is_const and not prop.ctype.is_shared_ptr else \"readwrite\",")),
        N("const-raw-pointer-property-writable", (PW, "                        if prop.ctype.is_const else \"readwrite\",", "                        if prop.ctype.is_const and not (prop.ctype.is_ptr and not prop.ctype.is_shared_ptr) else \"readwrite\",")),
    ]
TABLE["C09"] += [
    B("keyword-parameters-renamed-in-the-signature-only", {"W12"}, (PW, "        names = args.names()\n        types_names = [", "        names = [n + '_' if n in self.python_keywords else n for n in args.names()]\n        types_names = [")),
    B("call-passes-the-arguments-reversed", {"W12", "W4"}, (PW, "                                 args_names=', '.join(args_names),\n                             ))\n\n            ret = ('{prefix}.{cdef}(\"{function_name}\",", "                                 args_names=', '.join(reversed(args_names)),\n                             ))\n\n            ret = ('{prefix}.{cdef}(\"{function_name}\",")),
]
TIC = "gtwrap/template_instantiator/classes.py"
TABLE["C13"] += [
    B("dunder-arguments-written-into-the-parsed-list", {"P1"},
      (TIC, "                parser.DunderMethod(\n                    name=dunder_method.name,\n                    args=parser.ArgumentList(instantiated_args),\n                ))",
       "                parser.DunderMethod(\n                    name=dunder_method.name,\n                    args=parser.ArgumentList(instantiated_args),\n                ))\n            dunder_method.args.list()[:] = instantiated_args")),
    B("serialization-helpers-only-for-the-first-class", {"P10"},
      (PW, "        if not cpp_class in self._serializing_classes:\n            self._serializing_classes.append(cpp_class)\n",
       "        if self._serializing_classes:\n            return ''\n        self._serializing_classes.append(cpp_class)\n")),
]
for _p, _r in (("C14", "R3"), ("C08", "N6"), ("C17", "Q9")):
    pass
TABLE["C14"] += [
    B("group-table-as-a-mutable-default", {"R3"},
      (MW, "    def _group_methods(self, methods):", "    def _group_methods(self, methods, seen=[]):\n        seen.extend(m.name for m in methods)")),
    N("immutable-default-value", (MW, "    def _group_methods(self, methods):", "    def _group_methods(self, methods, skip=()):")),
]
TABLE["C15"] += [
    B("script-drops-unqualified-ignore-entries", {"X9"}, ("scripts/pybind_wrap.py", "        ignore_classes=args.ignore,", "        ignore_classes=[n for n in args.ignore if '::' in n],")),
]

# rules that decide by evaluation report under their own ids: a mutant of the member filter may be named by Q11 (or Q2 for element
# truthiness), one of the literal encoder by Q12
for _m in TABLE["C17"]:
    if _m["kind"] == "break":
        if "Q5" in _m["rules"]:
            _m["rules"] |= {"Q11", "Q2"}
        if "Q1" in _m["rules"]:
            _m["rules"] |= {"Q12"}
TABLE["C17"] += [
    B("parameter-name-fallback-by-truth-value", {"Q2", "Q11"},
      (XP, "                param_name = params[i].find(\n                    \"declname\"\n                )  # declname is the tag that usually contains the param name\n",
       "                param_name = params[i].find(\"defname\") or params[i].find(\n                    \"declname\"\n                )\n")),
    B("astral-characters-as-four-digit-universal-names", {"Q12", "Q1"},
      (PW, "        return '\"' + body.replace('\"', r'\\\"') + '\"'\n", "        body = re.sub(r'[^\\x00-\\x7f]', lambda match: '\\\\u%04x' % ord(match.group(0)), body)\n        return '\"' + body.replace('\"', r'\\\"') + '\"'\n")),
    N("non-ascii-as-universal-names-of-the-right-width",
      (PW, "        return '\"' + body.replace('\"', r'\\\"') + '\"'\n", "        body = re.sub(r'[^\\x00-\\x7f]', lambda match: ('\\\\u%04x' if ord(match.group(0)) <= 0xffff else '\\\\U%08x') % ord(match.group(0)), body)\n        return '\"' + body.replace('\"', r'\\\"') + '\"'\n")),
]
TABLE["C12"] += [
    B("matlab-files-joined-line-by-line", {"L7"}, (MW, "                content += f.read() + \"\\n\"", "                content += \"\\n\".join(f.read().splitlines()) + \"\\n\"")),
    B("module-text-rewritten-before-parsing", {"L7"}, (IP + "module.py", "        return Module.rule.parseString(s)[0]", "        s = s.replace('\\t', ' ')\n        return Module.rule.parseString(s)[0]")),
]
TABLE["C10"] += [
    B("static-block-returns-early-without-static-methods", {"T17"},
      (MW, "        for static_method in static_methods:\n            format_name = list(static_method[0].name)", "        if not static_methods:\n            return method_text\n\n        for static_method in static_methods:\n            format_name = list(static_method[0].name)")),
    N("namespace-registered-only-if-already-filled", (MW, "        if inner_namespace:\n            self.content.append(inner_namespace_scope)", "        if inner_namespace and inner_namespace_scope:\n            self.content.append(inner_namespace_scope)")),
]
TABLE["C18"] += [
    B("matrix-copied-with-the-column-count-as-stride", {"K5"},
      (H, "  for (int j=0;j<n;j++) for (int i=0;i<m;i++,data++) A(i,j) = *data;", "  for (int j=0;j<n;j++) for (int i=0;i<m;i++) A(i,j) = data[j*n+i];")),
    N("matrix-copied-by-explicit-index", (H, "  for (int j=0;j<n;j++) for (int i=0;i<m;i++,data++) A(i,j) = *data;", "  for (int j=0;j<n;j++) for (int i=0;i<m;i++) A(i,j) = data[j*m+i];")),
    N("matrix-copied-row-by-row-with-strided-reads", (H, "  for (int j=0;j<n;j++) for (int i=0;i<m;i++,data++) A(i,j) = *data;", "  for (int i=0;i<m;i++) for (int j=0;j<n;j++) A(i,j) = data[i+j*m];")),
]

for _m in TABLE["C06"]:
    if _m["kind"] == "break" and "M2" in _m["rules"]:
        _m["rules"] |= {"M16"}
for _m in TABLE["C11"]:
    if _m["kind"] == "break" and "H9" in _m["rules"]:
        _m["rules"] |= {"H18"}

# rounds 11 / 12
TABLE["C01"] += [
    B("forward-declaration-with-a-base-counts-as-virtual", {"G18"}, (IP + "declaration.py", "        self.is_virtual = is_virtual\n", "        self.is_virtual = is_virtual or ('virtual' if parent_type else '')\n")),
    B("forward-declaration-always-virtual", {"G18"}, (IP + "declaration.py", "        self.is_virtual = is_virtual\n", "        self.is_virtual = is_virtual or 'virtual'\n")),
    N("forward-declaration-flag-through-a-local", (IP + "declaration.py", "        self.is_virtual = is_virtual\n", "        flag = is_virtual\n        self.is_virtual = flag\n")),
]
for _p, _rs in (("C06", {"M18", "M1"}), ("C05", {"I11"}), ("C11", {"H19"})):
    TABLE[_p] += [
        B("inputs-all-read-from-the-first-slot", set(_rs),
          (MW, "                               unwrap=unwrap)),\n                                         prefix='  ')\n            arg_id += 1\n", "                               unwrap=unwrap)),\n                                         prefix='  ')\n")),
    ]

# ---- round 13: the string converters and checkScalar run by the interpreter (K15, K6), seeds s13-C18-*
_US_A = "  char *data = mxArrayToString(array);\n  if (data==NULL) error(\"unwrap<string>: not a character array\");\n  string str(data);\n  mxFree(data);\n  return str;\n"
_US_FAST = ("  if (mxGetClassID(array)!=mxCHAR_CLASS) error(\"unwrap<string>: not a character array\");\n  char buffer[256];\n"
            "  const size_t length = mxGetM(array)*mxGetN(array);\n  if (length%ssizeof(buffer)) {\n    mxGetString(array, buffer, sizeof(buffer));\n    return string(buffer);\n  }\n") + _US_A
_CS_A = "  int m = mxGetM(array), n = mxGetN(array);\n  if (m!=1 || n!=1)\n"
TABLE["C18"] += [
    B("short-strings-read-into-a-buffer-one-too-small", {"K15"}, (H, _US_A, _US_FAST % "<=")),
    N("short-strings-read-into-a-buffer-that-fits", (H, _US_A, _US_FAST % "<")),
    B("string-read-with-the-column-count-only", {"K15"},
      (H, _US_A, "  if (!mxIsChar(array)) error(\"unwrap<string>: not a character array\");\n  size_t n = mxGetN(array);\n  char* buf = new char[n+1];\n"
                 "  mxGetString(array, buf, n+1);\n  string str(buf);\n  delete[] buf;\n  return str;\n")),
    N("string-read-with-the-element-count", 
      (H, _US_A, "  if (!mxIsChar(array)) error(\"unwrap<string>: not a character array\");\n  size_t n = mxGetNumberOfElements(array);\n  char* buf = new char[n+1];\n"
                 "  mxGetString(array, buf, n+1);\n  string str(buf);\n  delete[] buf;\n  return str;\n")),
    B("string-buffer-without-room-for-the-terminator", {"K15"},
      (H, _US_A, "  if (!mxIsChar(array)) error(\"unwrap<string>: not a character array\");\n  size_t n = mxGetNumberOfElements(array);\n  char* buf = new char[n];\n"
                 "  mxGetString(array, buf, n);\n  string str(buf, n);\n  delete[] buf;\n  return str;\n")),
    B("string-guard-dropped-with-the-null-check", {"K15"},
      (H, "  if (data==NULL) error(\"unwrap<string>: not a character array\");\n  string str(data);", "  string str(data ? data : \"\");")),
    B("scalar-check-on-the-first-two-extents", {"K6"},
      (H, _CS_A, "  const mwSize* dims = mxGetDimensions(array);\n  if (dims[0]!=1 || dims[1]!=1)\n")),
    N("scalar-check-on-the-extents-and-their-number",
      (H, _CS_A, "  const mwSize* dims = mxGetDimensions(array);\n  if (mxGetNumberOfDimensions(array)!=2 || dims[0]!=1 || dims[1]!=1)\n")),
    B("scalar-check-lets-empty-arrays-through", {"K6"}, (H, _CS_A, "  if (mxGetNumberOfElements(array)>1)\n")),
    N("scalar-check-by-element-count", (H, _CS_A, "  if (mxGetNumberOfElements(array)!=1)\n")),
]
TABLE["C17"] += [
    B("missing-file-tested-instead-of-caught", {"Q3"},
      (XP, "        try:\n            return ET.parse(xml_file)\n        except FileNotFoundError:\n            print(f\"Warning: XML file '{xml_file}' not found.\")\n            return None\n        except OSError:\n            print(f\"Warning: XML file '{xml_file}' could not be read.\")\n            return None\n",
       "        if not os.path.exists(xml_file):\n            print(f\"Warning: XML file '{xml_file}' not found.\")\n            return None\n        try:\n            return ET.parse(xml_file)\n")),
    N("missing-file-tested-and-still-caught",
      (XP, "        try:\n            return ET.parse(xml_file)\n        except FileNotFoundError:\n",
       "        if not os.path.exists(xml_file):\n            print(f\"Warning: XML file '{xml_file}' not found.\")\n            return None\n        try:\n            return ET.parse(xml_file)\n        except FileNotFoundError:\n")),
]
TABLE["C16"] += [
    B("submodule-run-renames-the-wrapper", {"Y9", "Y2", "Y7"},
      (PW, "        module_name = Path(source).stem\n\n        # Read in the complete interface (.i) file", "        module_name = self.module_name = Path(source).stem\n\n        # Read in the complete interface (.i) file")),
    B("script-resolves-links-in-the-source-list", {"Y3"},
      ("scripts/pybind_wrap.py", "        sources = args.src.split(';')\n", "        sources = [os.path.realpath(src) for src in args.src.split(';')]\n"),
      ("scripts/pybind_wrap.py", "import argparse\n", "import argparse\nimport os.path\n")),
    N("script-makes-the-source-list-absolute",
      ("scripts/pybind_wrap.py", "        sources = args.src.split(';')\n", "        sources = [os.path.abspath(src) for src in args.src.split(';')]\n"),
      ("scripts/pybind_wrap.py", "import argparse\n", "import argparse\nimport os.path\n")),
    B("script-drops-repeated-sources", {"Y3"},
      ("scripts/pybind_wrap.py", "        sources = args.src.split(';')\n", "        sources = list(dict.fromkeys(args.src.split(';')))\n")),
    B("script-sorts-the-additional-sources", {"Y3"},
      ("scripts/pybind_wrap.py", "        sources = args.src.split(';')\n", "        sources = args.src.split(';')\n        sources = sources[:1] + sorted(sources[1:])\n")),
]
TABLE["C14"] += [
    B("submodule-run-renames-the-wrapper", {"R11"},
      (PW, "        module_name = Path(source).stem\n\n        # Read in the complete interface (.i) file", "        module_name = self.module_name = Path(source).stem\n\n        # Read in the complete interface (.i) file")),
    B("ignore-list-grows-while-wrapping", {"R11"},
      (PW, "        module = parser.Module.parseString(content)\n", "        module = parser.Module.parseString(content)\n        self.ignore_classes.extend(c for c in self._serializing_classes)\n")),
    N("script-makes-the-source-list-absolute",
      ("scripts/pybind_wrap.py", "        sources = args.src.split(';')\n", "        sources = [os.path.abspath(src) for src in args.src.split(';')]\n"),
      ("scripts/pybind_wrap.py", "import argparse\n", "import argparse\nimport os.path\n")),
]
_GF_A = "        for i, overload in enumerate(function):\n            param_wrap += '      if' if i == 0 else '      elseif'\n            param_wrap += ' length(varargin) == '\n\n            if len(overload.args.list()) == 0:"
_GF_DEDUP = "        overloads = []\n        for overload in function:\n            if overload.args.to_cpp() not in (o.args.to_cpp() for o in overloads):\n                overloads.append(overload)\n"
TABLE["C05"] += [
    B("class-file-name-clipped", {"I13"},
      (MX, "        if len(instantiated_class.ctors) != 0:\n            return instantiated_class.ctors[0].name\n\n        return instantiated_class.name\n",
       "        if len(instantiated_class.ctors) != 0:\n            return instantiated_class.ctors[0].name[:63]\n\n        return instantiated_class.name[:63]\n")),
    B("class-file-named-in-lower-case-beyond-a-length", {"I13"},
      (MX, "\n        return instantiated_class.name\n", "\n        name = instantiated_class.name\n        return name if len(name) < 32 else name[:32] + name[32:].lower()\n")),
    B("free-function-branches-from-a-reduced-list", {"I10"},
      (MW, _GF_A, _GF_DEDUP + _GF_A.replace("enumerate(function)", "enumerate(overloads)"))),
    N("free-function-branches-and-ids-from-a-reduced-list",
      (MW, _GF_A, _GF_DEDUP + _GF_A.replace("enumerate(function)", "enumerate(overloads)")),
      (MW, "                                                function[i], 'global_function',", "                                                overloads[i], 'global_function',")),
]
TABLE["C10"] += [
    B("class-file-name-clipped", {"T19"},
      (MX, "        if len(instantiated_class.ctors) != 0:\n            return instantiated_class.ctors[0].name\n\n        return instantiated_class.name\n",
       "        if len(instantiated_class.ctors) != 0:\n            return instantiated_class.ctors[0].name[:63]\n\n        return instantiated_class.name[:63]\n")),
]
_RTTI_A = "            if cls.is_virtual:\n                class_name, class_name_sep = self.get_class_name(cls)\n                rtti_classes += '    types.insert(std::make_pair(typeid({}).name(), \"{}\"));\\n' \\\n                    .format(class_name_sep, class_name)\n"
TABLE["C10"] += [
    B("rtti-lines-from-unfiltered-classes-zipped-with-filtered-names", {"T20", "T1"},
      (MW, "            class_name, class_name_sep = self.get_class_name(cls)\n\n            # If a class has instantiations", "            class_name, class_name_sep = self.get_class_name(cls)\n            class_names.append((class_name, class_name_sep))\n\n            # If a class has instantiations"),
      (MW, "        rtti_classes = ''\n\n        for cls in self.classes:", "        class_names = []\n\n        for cls in self.classes:"),
      (MW, _RTTI_A, ""),
      (MW, "        # Generate the typedef instances string\n", "        rtti_classes = ''.join('    types.insert(std::make_pair(typeid({}).name(), \"{}\"));\\n'.format(sep_, name_)\n                               for cls, (name_, sep_) in zip(self.classes, class_names) if cls.is_virtual)\n        # Generate the typedef instances string\n")),
    N("rtti-lines-from-the-filtered-classes-after-the-loop",
      (MW, "            class_name, class_name_sep = self.get_class_name(cls)\n\n            # If a class has instantiations", "            class_name, class_name_sep = self.get_class_name(cls)\n            class_names.append((cls, class_name, class_name_sep))\n\n            # If a class has instantiations"),
      (MW, "        rtti_classes = ''\n\n        for cls in self.classes:", "        class_names = []\n\n        for cls in self.classes:"),
      (MW, _RTTI_A, ""),
      (MW, "        # Generate the typedef instances string\n", "        rtti_classes = ''.join('    types.insert(std::make_pair(typeid({}).name(), \"{}\"));\\n'.format(sep_, name_)\n                               for cls, name_, sep_ in class_names if cls.is_virtual)\n        # Generate the typedef instances string\n")),
    B("registry-keyed-by-the-cpp-type", {"T21"},
      (MW, "        if self.classes_elems.get(instantiated_class) is None:\n            self.classes_elems[instantiated_class] = 0", "        if self.classes_elems.get(instantiated_class.to_cpp()) is None:\n            self.classes_elems[instantiated_class.to_cpp()] = 0")),
    B("registry-keyed-by-the-bare-name", {"T21"},
      (MW, "        if self.classes_elems.get(instantiated_class) is None:\n            self.classes_elems[instantiated_class] = 0", "        if self.classes_elems.get(instantiated_class.name) is None:\n            self.classes_elems[instantiated_class.name] = 0")),
    B("clean-up-block-skipped-for-typedefd-classes", {"T20", "T1"},
      (MW, "            delete_objs += WrapperTemplate.delete_obj.format(\n                class_name=class_name)", "            if not cls.instantiations:\n                delete_objs += WrapperTemplate.delete_obj.format(\n                    class_name=class_name)")),
    B("instantiated-classes-equal-by-cpp-type", {"T21"},
      ("gtwrap/template_instantiator/classes.py", "    def instantiate_parent_class(self, typenames):", "    def __eq__(self, other):\n        return isinstance(other, InstantiatedClass) and self.to_cpp() == other.to_cpp()\n\n    def __hash__(self):\n        return hash(self.to_cpp())\n\n    def instantiate_parent_class(self, typenames):")),
]
_CR_A = "            if self.is_class_enum(ctype, instantiated_class):\n                class_name = \".\".join(instantiated_class.namespaces()[1:] +\n                                      [instantiated_class.name])\n            else:"
TABLE["C06"] += [
    B("constructor-without-supplied-arguments-skips-the-argument-pass", {"M18"},
      (MW, "                base = ''\n                params, body_args = self._wrapper_unwrap_arguments(\n                    extra.args, instantiated_class=collector_func[1])\n",
       "                base = ''\n                params, body_args = '', ''\n                if extra.args:\n                    params, body_args = self._wrapper_unwrap_arguments(\n                        extra.args, instantiated_class=collector_func[1])\n")),
    N("constructor-without-parameters-skips-the-argument-pass",
      (MW, "                base = ''\n                params, body_args = self._wrapper_unwrap_arguments(\n                    extra.args, instantiated_class=collector_func[1])\n",
       "                base = ''\n                params, body_args = '', ''\n                if extra.args.backup.list():\n                    params, body_args = self._wrapper_unwrap_arguments(\n                        extra.args, instantiated_class=collector_func[1])\n")),
    B("returned-enum-asks-the-namespace-first", {"M20"},
      (MW, _CR_A, "            if not self.is_global_enum(ctype, instantiated_class):\n                class_name = \".\".join(instantiated_class.namespaces()[1:] +\n                                      [instantiated_class.name])\n            else:")),
    B("class-enum-decided-by-bare-name-again", {"M20"},
      (MX, "            qualifier = arg_type.typename.namespaces\n            if not qualifier or not class_.parent:\n                return True\n", "            return True\n            qualifier = arg_type.typename.namespaces\n")),
    B("returned-class-enum-loses-the-class", {"M20"},
      (MW, "                class_name = \".\".join(instantiated_class.namespaces()[1:] +\n                                      [instantiated_class.name])\n            else:\n                # Get the full namespace", "                class_name = \".\".join(instantiated_class.namespaces()[1:])\n            else:\n                # Get the full namespace")),
]
TABLE["C06"] += [
    B("static-methods-always-assign-one-output", {"M21"},
      (MW, "                      {check_statement}{spacing}{varargout}{wrapper}({id}, varargin{{:}});{end_statement}", "                      {check_statement}{spacing}varargout{{1}} = {wrapper}({id}, varargin{{:}});{end_statement}")),
    B("void-free-functions-assign-an-output", {"M21"},
      (MW, "            varargout = '' \\\n                if return_type_formatted == 'void' \\\n                else 'varargout{1} = '", "            varargout = 'varargout{1} = '")),
]
_GCN = ("    def _guard_class_name(self, arg, instantiated_class=None, is_constructor=False):\n        if instantiated_class and %s:\n"
        "            return \".\".join(instantiated_class.namespaces()[1:] + [instantiated_class.name, arg.ctype.typename.name])\n"
        "        return self._format_type_name(arg.ctype.typename, separator='.', is_constructor=is_constructor)\n\n")
_GCN_EDITS = (
    (MW, "    def _wrap_variable_arguments(self, args, wrap_datatypes=True):", "    def _wrap_variable_arguments(self, args, wrap_datatypes=True, instantiated_class=None):"),
    (MW, "                check_type = self._format_type_name(\n                    arg.ctype.typename,\n                    separator='.',\n                    is_constructor=not wrap_datatypes)",
     "                check_type = self._guard_class_name(arg, instantiated_class, is_constructor=not wrap_datatypes)"),
    (MW, "                        varargin=self._wrap_variable_arguments(\n                            ctor.args, False),", "                        varargin=self._wrap_variable_arguments(\n                            ctor.args, False, inst_class),"),
)
TABLE["C11"] += [
    B("guard-names-a-foreign-enum-after-the-class", {"H24"},
      (MW, "    def _wrap_variable_arguments(self, args, wrap_datatypes=True):", (_GCN % "self.is_class_enum(arg.ctype, instantiated_class)") + "    def _wrap_variable_arguments(self, args, wrap_datatypes=True):"),
      *_GCN_EDITS),
    N("guard-names-the-class-enum-after-the-class",
      (MW, "    def _wrap_variable_arguments(self, args, wrap_datatypes=True):", (_GCN % "self.is_class_enum(arg.ctype, instantiated_class) and (not arg.ctype.typename.namespaces or arg.ctype.typename.namespaces[-1] == instantiated_class.name)") + "    def _wrap_variable_arguments(self, args, wrap_datatypes=True):"),
      *_GCN_EDITS),
    B("scalar-check-with-a-de-morgan-slip", {"H17"}, (H, "  if (m!=1 || n!=1)\n", "  if (!(m==1 || n==1))\n")),
    N("scalar-check-negated-conjunction", (H, "  if (m!=1 || n!=1)\n", "  if (!(m==1 && n==1))\n")),
]
TABLE["C06"] += [
    B("guard-names-a-foreign-enum-after-the-class", {"M22"},
      (MW, "    def _wrap_variable_arguments(self, args, wrap_datatypes=True):", (_GCN % "self.is_class_enum(arg.ctype, instantiated_class)") + "    def _wrap_variable_arguments(self, args, wrap_datatypes=True):"),
      *_GCN_EDITS),
]
TABLE["C18"] += [
    B("scalar-check-with-a-de-morgan-slip", {"K6", "K10"}, (H, "  if (m!=1 || n!=1)\n", "  if (!(m==1 || n==1))\n")),
    N("scalar-check-negated-conjunction", (H, "  if (m!=1 || n!=1)\n", "  if (!(m==1 && n==1))\n")),
]
TABLE["C12"] += [
    B("tabs-expanded-before-parsing-again", {"L8"},
      (IP + "module.py", "    rule.parseWithTabs()\n", "")),
    N("tabs-kept-through-the-defining-expression",
      (IP + "module.py", "    rule.parseWithTabs()\n", ""),
      (IP + "module.py", "    rule.ignore(cppStyleComment)\n", "    rule.ignore(cppStyleComment).parseWithTabs()\n")),
    B("tabs-kept-on-a-copy-of-the-rule", {"L8"},
      (IP + "module.py", "    rule.parseWithTabs()\n", "    rule.copy().parseWithTabs()\n")),
    B("default-value-look-ahead-inside-the-copy", {"L5"},
      (IP + "tokens.py", "DEFAULT_ARG = originalTextFor(\n    OneOrMore(", "DEFAULT_ARG = originalTextFor(\n    ~EQUAL + OneOrMore(")),
    N("default-value-look-ahead-in-front-of-the-copy",
      (IP + "tokens.py", "DEFAULT_ARG = originalTextFor(\n    OneOrMore(", "DEFAULT_ARG = ~EQUAL + originalTextFor(\n    OneOrMore(")),
]
TABLE["C07"] += [
    B("ctor-name-checked-by-membership", {"V6"},
      (IP + "classes.py", "        for ctor in self.ctors:\n            if ctor.name != self.name:\n                raise ValueError(\"Error in constructor name! {} != {}\".format(\n                    ctor.name, self.name))",
       "        ctor_names = {ctor.name for ctor in self.ctors}\n        if ctor_names and self.name not in ctor_names:\n            raise ValueError(\"Error in constructor name! {} != {}\".format(\n                \"/\".join(sorted(ctor_names)), self.name))")),
    N("ctor-names-checked-as-a-set",
      (IP + "classes.py", "        for ctor in self.ctors:\n            if ctor.name != self.name:\n                raise ValueError(\"Error in constructor name! {} != {}\".format(\n                    ctor.name, self.name))",
       "        ctor_names = {ctor.name for ctor in self.ctors}\n        if ctor_names - {self.name}:\n            raise ValueError(\"Error in constructor name! {} != {}\".format(\n                \"/\".join(sorted(ctor_names)), self.name))")),
    B("ctor-name-checked-for-the-first-only", {"V6"},
      (IP + "classes.py", "        for ctor in self.ctors:\n            if ctor.name != self.name:\n                raise ValueError(", "        for ctor in self.ctors[:1]:\n            if ctor.name != self.name:\n                raise ValueError(")),
    B("binary-operator-type-check-skips-minus", {"V6"},
      (IP + "classes.py", "        if len(args) == 1 and self.operator not in (\"()\", \"[]\"):", "        if len(args) == 1 and self.operator not in (\"()\", \"[]\", \"-\"):")),
    B("operator-arity-check-off-by-one", {"V6"},
      (IP + "classes.py", "        assert 0 <= len(args) < 2, \\", "        assert 0 <= len(args) <= 2, \\")),
]
_VI_A = "                if type_list[0].strip() == 'size_t':\n                    method_suffix = '_' + name_list[1].strip()\n                    res += self._wrap_method(method=method,\n                                             cpp_class=cpp_class,\n                                             prefix=prefix,\n                                             suffix=suffix,\n                                             method_suffix=method_suffix)\n"
TABLE["C03"] += [
    B("values-insert-bound-only-in-its-special-form", {"A13"}, (PW, _VI_A, _VI_A + "                    continue\n")),
    B("values-insert-ordinary-binding-only-for-size-t", {"A13"}, (PW, _VI_A, _VI_A + "                else:\n                    continue\n")),
    B("submodule-memory-per-namespace-object", {"A4"},
      (PW, "                    and module_var not in self._submodule_vars:\n                self._submodule_vars.append(module_var)", "                    and id(namespace) not in self._submodule_vars:\n                self._submodule_vars.append(id(namespace))")),
    B("submodule-memory-keyed-by-the-last-name", {"A4"},
      (PW, "                    and module_var not in self._submodule_vars:\n                self._submodule_vars.append(module_var)", "                    and namespace.name not in self._submodule_vars:\n                self._submodule_vars.append(namespace.name)")),
]
TABLE["C09"] += [
    B("submodule-memory-per-namespace-object", {"W6"},
      (PW, "                    and module_var not in self._submodule_vars:\n                self._submodule_vars.append(module_var)", "                    and id(namespace) not in self._submodule_vars:\n                self._submodule_vars.append(id(namespace))")),
]
TABLE["C02"] += [
    B("scoped-parameter-must-be-the-whole-qualifier", {"S14"},
      (TI + "helpers.py", "    for idx, template in enumerate(template_typenames):\n        if \"::\" in str_arg_typename and \\\n            template in str_arg_typename.split(\"::\"):", "    scope, _, _ = str_arg_typename.rpartition(\"::\")\n    for idx, template in enumerate(template_typenames):\n        if template == scope:")),
    B("qualified-template-arguments-not-descended-into", {"S14"},
      (TI + "helpers.py", "            else:\n                instantiate_template_args(instantiation)", "            elif not instantiation.namespaces:\n                instantiate_template_args(instantiation)")),
]
TABLE["C14"] += [
    B("output-left-alone-when-newer-than-the-source", {"R1"},
      (PW, "        main_module = sources[0]\n", "        main_module = sources[0]\n        out_, src_ = Path(main_module_name), Path(main_module)\n        if out_.is_file() and src_.stat().st_mtime_ns < out_.stat().st_mtime_ns:\n            return\n")),
]
_NS_APP = "            element = instantiate_namespace(element, typedef_targets)\n            instantiated_content.append(element)\n"
TABLE["C08"] += [
    B("namespaces-left-empty-are-dropped", {"N11"}, (TI + "namespace.py", _NS_APP, "            element = instantiate_namespace(element, typedef_targets)\n            if element.content:\n                instantiated_content.append(element)\n")),
    B("typedefd-instantiations-ahead-of-the-nested-namespaces", {"N11", "N3"},
      (TI + "namespace.py", "    instantiated_content.extend(typedef_content)\n", "    nested = [i for i, e in enumerate(instantiated_content) if isinstance(e, parser.Namespace)]\n    position = nested[0] if nested else len(instantiated_content)\n    instantiated_content[position:position] = typedef_content\n")),
]
TABLE["C09"] += [
    B("typedefd-instantiations-ahead-of-the-nested-namespaces", {"W18"},
      (TI + "namespace.py", "    instantiated_content.extend(typedef_content)\n", "    nested = [i for i, e in enumerate(instantiated_content) if isinstance(e, parser.Namespace)]\n    position = nested[0] if nested else len(instantiated_content)\n    instantiated_content[position:position] = typedef_content\n")),
]
TABLE["C13"] += [
    B("instantiation-list-kind-decided-by-its-first-entry", {"P14"},
      (IP + "template.py", "                for inst in instantiations:\n                    x = inst.typename if isinstance(inst,\n                                                    TemplatedType) else inst\n                    self.instantiations.append(x)\n",
       "                if isinstance(instantiations[0], TemplatedType):\n                    self.instantiations = [inst.typename for inst in instantiations]\n                else:\n                    self.instantiations = list(instantiations)\n")),
    N("instantiation-list-by-one-comprehension",
      (IP + "template.py", "                for inst in instantiations:\n                    x = inst.typename if isinstance(inst,\n                                                    TemplatedType) else inst\n                    self.instantiations.append(x)\n",
       "                self.instantiations = [inst.typename if isinstance(inst, TemplatedType) else inst for inst in instantiations]\n")),
]
TABLE["C04"] += [
    B("template-argument-slot-rebound-instead-of-renamed", {"B15"},
      (TI + "helpers.py", "        for instantiation in typename.instantiations:\n            if instantiation.name in template_typenames:\n                template_idx = template_typenames.index(instantiation.name)\n                instantiation.name = instantiations[template_idx]",
       "        for idx, instantiation in enumerate(typename.instantiations):\n            if instantiation.name in template_typenames:\n                template_idx = template_typenames.index(instantiation.name)\n                typename.instantiations[idx] = deepcopy(instantiations[template_idx])")),
    B("unqualified-base-resolved-in-the-class-namespace", {"B16"},
      (TI + "classes.py", "        else:\n            return self.original.parent_class\n", "        elif self.original.parent_class and not self.original.parent_class.namespaces and self.parent and self.parent.name:\n            return parser.Typename(self.parent.full_namespaces() + [self.original.parent_class.name])\n        else:\n            return self.original.parent_class\n")),
]
TABLE["C01"] += [
    B("std-string-canonicalised-in-custom-types", {"G19"},
      (IP + "type.py", "    def __init__(self, t: ParseResults):\n        self.typename = Typename(t)\n\n\nclass Type:", "    def __init__(self, t: ParseResults):\n        self.typename = Typename(t)\n        if self.typename.qualified_name() == \"std::string\":\n            self.typename = Typename([\"string\"])\n\n\nclass Type:")),
    B("namespace-keeps-one-forward-declaration-per-name", {"G19"},
      (IP + "namespace.py", "        self.content = content\n", "        seen_, kept_ = [], []\n        for el_ in content:\n            if isinstance(el_, ForwardDeclaration):\n                if el_.typename in seen_:\n                    continue\n                seen_.append(el_.typename)\n            kept_.append(el_)\n        self.content = kept_\n")),
]
TABLE["C19"] += [
    B("typename-constructor-copies-what-copy-copied", {"Z9"},
      (IP + "type.py", "        if instantiations:\n            if isinstance(instantiations, Sequence):\n                self.instantiations = instantiations  # type: ignore\n            else:\n                self.instantiations = instantiations.asList()\n        else:\n            self.instantiations = []\n",
       "        self.instantiations = [inst.copy() for inst in instantiations]\n\n    def copy(self):\n        return Typename(self.namespaces + [self.name], [inst.copy() for inst in self.instantiations])\n")),
    N("typename-copy-with-a-constructor-that-keeps-its-list",
      (IP + "type.py", "        if instantiations:\n            if isinstance(instantiations, Sequence):\n                self.instantiations = instantiations  # type: ignore\n            else:\n                self.instantiations = instantiations.asList()\n        else:\n            self.instantiations = []\n",
       "        self.instantiations = list(instantiations)\n\n    def copy(self):\n        return Typename(self.namespaces + [self.name], [inst.copy() for inst in self.instantiations])\n")),
]
TABLE["C18"] += [
    B("char-wrapped-through-a-c-string", {"K16"},
      (H, "  mxArray *result = scalar(mxUINT32OR64_CLASS);\n  *(char*)mxGetData(result) = value;\n  return result;", "  const char str[2] = { value, '\\0' };\n  return mxCreateString(str);")),
    B("out-of-range-doubles-saturated-for-every-type", {"K16"},
      (H, "      // hope for the best!\n      return (T) mxGetScalar(array);", "    {\n      const double value = mxGetScalar(array);\n      if (value >= (double) std::numeric_limits<T>::max()) return std::numeric_limits<T>::max();\n      if (value <= (double) std::numeric_limits<T>::lowest()) return std::numeric_limits<T>::lowest();\n      return (T) value;\n    }"),
      (H, "#include <list>\n", "#include <limits>\n#include <list>\n")),
    N("out-of-range-doubles-saturated-for-integer-types",
      (H, "      // hope for the best!\n      return (T) mxGetScalar(array);", "    {\n      const double value = mxGetScalar(array);\n      if (std::numeric_limits<T>::is_integer) {\n        if (value >= (double) std::numeric_limits<T>::max()) return std::numeric_limits<T>::max();\n        if (value <= (double) std::numeric_limits<T>::lowest()) return std::numeric_limits<T>::lowest();\n      }\n      return (T) value;\n    }"),
      (H, "#include <list>\n", "#include <limits>\n#include <list>\n")),
    B("int-stored-through-a-short-pointer", {"K16", "K3"},
      (H, "  *(int*)mxGetData(result) = value;", "  *(short*)mxGetData(result) = value;")),
    B("size-t-array-created-32-bit", {"K16", "K3"},
      (H, "mxArray* wrap<size_t>(const size_t& value) {\n  mxArray *result = scalar(mxUINT32OR64_CLASS);", "mxArray* wrap<size_t>(const size_t& value) {\n  mxArray *result = scalar(mxUINT32_CLASS);")),
]
TABLE["C18"] += [
    B("enum-value-read-after-its-array-was-destroyed", {"K17"},
      (H, "  int32_T* value = (int32_T*)mxGetData(a_int32);\n", "  int32_T* value = (int32_T*)mxGetData(a_int32);\n  mxDestroyArray(a);\n  mxDestroyArray(a_int32);\n")),
    N("enum-value-copied-before-its-array-is-destroyed",
      (H, "  int32_T* value = (int32_T*)mxGetData(a_int32);\n  // cast int32 to enum type\n  return static_cast<T>(*value);", "  const int32_T value = *(int32_T*)mxGetData(a_int32);\n  mxDestroyArray(a);\n  mxDestroyArray(a_int32);\n  // cast int32 to enum type\n  return static_cast<T>(value);")),
    B("string-built-after-its-buffer-was-freed", {"K17"},
      (H, "  string str(data);\n  mxFree(data);\n  return str;", "  mxFree(data);\n  string str(data);\n  return str;")),
]
TABLE["C11"] += [
    B("enum-value-read-after-its-array-was-destroyed", {"H25"},
      (H, "  int32_T* value = (int32_T*)mxGetData(a_int32);\n", "  int32_T* value = (int32_T*)mxGetData(a_int32);\n  mxDestroyArray(a);\n  mxDestroyArray(a_int32);\n")),
]
TABLE["C06"] += [
    B("vector-guard-with-a-bare-alternative", {"M16"},
      (MW, "            if name == 'Vector':\n                var_arg_wrap += ' && size(varargin{{{num}}},2)==1'.format(\n                    num=i)", "            if name == 'Vector':\n                var_arg_wrap += ' && size(varargin{{{num}}},2)==1 || isempty(varargin{{{num}}})'.format(\n                    num=i)")),
    N("vector-guard-with-a-parenthesised-alternative",
      (MW, "            if name == 'Vector':\n                var_arg_wrap += ' && size(varargin{{{num}}},2)==1'.format(\n                    num=i)", "            if name == 'Vector':\n                var_arg_wrap += ' && (size(varargin{{{num}}},2)==1 || isempty(varargin{{{num}}}))'.format(\n                    num=i)")),
    B("constructor-routine-formatted-twice", {"M18"},
      (MW, "                                      base=base)\n", "                                      base=base).format()\n")),
]
_MEX_A = "            cases += textwrap.indent(textwrap.dedent('''\\\n                case {}:\n                  {}(nargout, out, nargin-1, in+1);\n                  break;\n                ''').format(wrapper_id, next_case if next_case else id_val[3]),"
TABLE["C05"] += [
    B("case-label-read-from-the-first-number-in-the-routine-name", {"I14", "I5"},
      (MW, _MEX_A, _MEX_A.replace("format(wrapper_id, next_case if next_case else id_val[3])", "format(wrapper_id if next_case else int(re.search(r'_(\\d+)', id_val[3]).group(1)), next_case if next_case else id_val[3])")),
      (MW, "import os\n", "import os\nimport re\n")),
]
TABLE["C10"] += [
    B("free-functions-of-later-blocks-not-wrapped", {"T14", "T22"},
      (MW, "        self.wrap_methods(all_funcs, True, global_ns=namespace)\n", "        if not any(isinstance(c, list) and c and c[0][0] == \"\".join('+' + x + '/' for x in namespaces[1:])[:-1] for c in self.content[:-1] if inner_namespace):\n            self.wrap_methods(all_funcs, True, global_ns=namespace)\n")),
]
