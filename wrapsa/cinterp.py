"""A small interpreter for the copy loops of matlab.h, working on clang's JSON AST (Engine X).

It executes a converter (wrap<Vector>, unwrap<Matrix>, ...) on *sample* arrays whose cells are symbols, so that the rule can
read off which cell ended up where.  Nothing of the header is compiled or run: the interpreter walks the AST with its own
model of the handful of MEX functions and of the vector / matrix stand-ins (size / rows / cols / operator()).  Anything it
does not know raises CUnknown and the rule falls back to the recogniser of loop shapes."""
from __future__ import annotations

from typing import Dict, List, Optional

from .clangx import callee, statements


import re

_ARRAY_T = re.compile(r"^(?:const )?([\w ]+?)\s*\[(\d+)\]$")
_ELEM = {"char": 1, "unsigned char": 1, "signed char": 1, "bool": 1, "short": 2, "unsigned short": 2, "int": 4, "unsigned int": 4, "float": 4,
         "long": 8, "unsigned long": 8, "size_t": 8, "mwSize": 8, "double": 8, "long long": 8, "unsigned long long": 8, "mxChar": 2}


def _sizeof(t: str) -> Optional[int]:
    t = t.replace("const ", "").strip()
    m = _ARRAY_T.match(t)
    if m:
        e = _ELEM.get(m.group(1).strip())
        return e * int(m.group(2)) if e else None
    if t.endswith("*"):
        return 8
    return _ELEM.get(t)


class CUnknown(Exception):
    pass


class CError(Exception):
    """The interpreted function called error()."""


class _Ret(Exception):
    def __init__(self, v):
        self.v = v


class _Brk(Exception):
    pass


class _Cont(Exception):
    pass


class MxArray:
    def __init__(self, m: int, n: int, cells: Optional[List[object]] = None, cls: str = "mxDOUBLE_CLASS", dims: Optional[List[int]] = None):
        # dims: the extents of an N-d array; MATLAB reports mxGetM = dims[0] and mxGetN = the product of all the others
        if dims is not None:
            m, n = dims[0], 1
            for d in dims[1:]:
                n *= d
        self.m, self.n, self.cls = m, n, cls
        self.dims = list(dims) if dims is not None else [m, n]
        self.data: List[object] = list(cells) if cells is not None else [0.0] * (m * n)
        self.oob: List[str] = []


class Ptr:
    def __init__(self, arr: MxArray, off: int = 0):
        self.arr, self.off = arr, off


class Dense:
    """gtsam::Vector / Matrix / Point stand-in: cells addressed by (i) or (i, j)."""

    def __init__(self, rows: int, cols: int = 1, cells: Optional[Dict] = None, vector: bool = False):
        self.rows, self.cols, self.vector = rows, cols, vector
        self.cells: Dict = dict(cells) if cells is not None else {}
        self.oob: List[str] = []


class Ref:
    """An lvalue: a local variable, an array cell, a dense cell."""

    def __init__(self, get, set_):
        self.get, self.set = get, set_


_TRANSPARENT = ("ImplicitCastExpr", "ParenExpr", "MaterializeTemporaryExpr", "ExprWithCleanups", "CXXBindTemporaryExpr", "CXXFunctionalCastExpr",
                "ConstantExpr", "CStyleCastExpr", "CXXStaticCastExpr", "CXXReinterpretCastExpr", "CXXConstCastExpr")


class Machine:
    def __init__(self, budget: int = 20000):
        self.env: Dict[str, object] = {}
        self.steps = 0
        self.budget = budget
        self.created: List[MxArray] = []
        self.buffers: List[MxArray] = []
        self.faults: List[str] = []
        self.freed: List[MxArray] = []

    # ------------------------------------------------------------------ values
    def tick(self):
        self.steps += 1
        if self.steps > self.budget:
            raise CUnknown("too many steps")

    def rv(self, n):
        v = self.ev(n)
        return v.get() if isinstance(v, Ref) else v

    def lv(self, n) -> Ref:
        v = self.ev(n)
        if not isinstance(v, Ref):
            raise CUnknown("assignment to something that is not an lvalue")
        return v

    def cell(self, p: Ptr, k: int) -> Ref:
        arr, idx = p.arr, p.off + k

        def get():
            if 0 <= idx < len(arr.data):
                return arr.data[idx]
            arr.oob.append(f"read of element {idx} of {'a buffer' if arr.cls == 'buffer' else 'an array'} with {len(arr.data)} element(s)")
            return ("outside", idx)

        def set_(v):
            if 0 <= idx < len(arr.data):
                arr.data[idx] = v
            else:
                arr.oob.append(f"write to element {idx} of {'a buffer' if arr.cls == 'buffer' else 'an array'} with {len(arr.data)} element(s)")
        return Ref(get, set_)

    # ------------------------------------------------------------------ character buffers and strings
    def new_buffer(self, n: int, cells: Optional[List[object]] = None) -> Ptr:
        b = MxArray(1, n, cells if cells is not None else [("uninitialised", k) for k in range(n)], cls="buffer")
        self.buffers.append(b)
        return Ptr(b)

    def c_string(self, p, limit: Optional[int] = None) -> str:
        """The characters a C string function reads from p: up to the NUL (or `limit` characters)."""
        if not isinstance(p, Ptr):
            raise CUnknown("string built from something that is not a character pointer")
        out = []
        k = 0
        while limit is None or k < limit:
            self.tick()
            c = self.cell(p, k).get()
            if c == "\0" and limit is None:
                break
            if not isinstance(c, str):
                self.faults.append(f"reads {'an uninitialised byte' if c[0] == 'uninitialised' else 'a byte outside the buffer'} (offset {p.off + k} of "
                                   f"{len(p.arr.data)}) while looking for the end of the string")
                break
            out.append(c)
            k += 1
        return "".join(out)

    def dense_cell(self, d: Dense, idx) -> Ref:
        key = tuple(idx) if len(idx) > 1 else (idx[0], 0)
        if len(idx) == 1 and not d.vector and d.cols != 1:
            # linear index into a matrix (column-major)
            key = (idx[0] % d.rows if d.rows else 0, idx[0] // d.rows if d.rows else 0)

        def inside():
            return 0 <= key[0] < d.rows and 0 <= key[1] < d.cols

        def get():
            if inside():
                return d.cells.get(key, 0.0)
            d.oob.append(f"read of element {key} of a {d.rows}x{d.cols} object")
            return ("outside", key)

        def set_(v):
            if inside():
                d.cells[key] = v
            else:
                d.oob.append(f"write to element {key} of a {d.rows}x{d.cols} object")
        return Ref(get, set_)

    # ------------------------------------------------------------------ expressions
    def ev(self, n):
        self.tick()
        k = n.get("kind")
        inner = [c for c in (n.get("inner") or []) if isinstance(c, dict) and c]
        if k in _TRANSPARENT:
            return self.ev(inner[-1]) if inner else None
        if k == "IntegerLiteral":
            return int(n.get("value"))
        if k == "FloatingLiteral":
            return float(n.get("value"))
        if k == "CXXBoolLiteralExpr":
            return bool(n.get("value"))
        if k in ("StringLiteral", "CXXNullPtrLiteralExpr", "GNUNullExpr"):
            return n.get("value")
        if k == "DeclRefExpr":
            nm = (n.get("referencedDecl") or {}).get("name")
            if nm in self.env:
                env = self.env
                return Ref(lambda: env[nm], lambda v: env.__setitem__(nm, v))
            if nm in ("mxREAL", "mxCOMPLEX") or (nm or "").endswith("_CLASS"):
                return nm
            raise CUnknown(f"name {nm}")
        if k == "UnaryOperator":
            op = n.get("opcode")
            if op in ("++", "--"):
                r = self.lv(inner[0])
                old = r.get()
                d = 1 if op == "++" else -1
                new = Ptr(old.arr, old.off + d) if isinstance(old, Ptr) else old + d
                r.set(new)
                return old if n.get("isPostfix") else new
            if op == "*":
                p = self.rv(inner[0])
                if not isinstance(p, Ptr):
                    raise CUnknown("dereference of something that is not a pointer into an array")
                return self.cell(p, 0)
            if op == "-":
                return -self.rv(inner[0])
            if op == "+":
                return self.rv(inner[0])
            if op == "!":
                return not self.rv(inner[0])
            if op == "&":
                v = self.ev(inner[0])
                raise CUnknown("address-of")
            raise CUnknown(f"unary {op}")
        if k == "ArraySubscriptExpr":
            p, i = self.rv(inner[0]), self.rv(inner[1])
            if isinstance(i, Ptr):
                p, i = i, p
            if not isinstance(p, Ptr) or not isinstance(i, int):
                raise CUnknown("subscript")
            return self.cell(p, i)
        if k in ("BinaryOperator", "CompoundAssignOperator"):
            op = n.get("opcode")
            if op == ",":
                self.rv(inner[0])
                return self.ev(inner[1])
            if op == "=":
                r = self.lv(inner[0])
                v = self.rv(inner[1])
                r.set(v)
                return r
            if op in ("+=", "-=", "*=", "/="):
                r = self.lv(inner[0])
                v = self._arith(op[0], r.get(), self.rv(inner[1]))
                r.set(v)
                return r
            if op == "&&":
                return bool(self.rv(inner[0])) and bool(self.rv(inner[1]))
            if op == "||":
                return bool(self.rv(inner[0])) or bool(self.rv(inner[1]))
            a, b = self.rv(inner[0]), self.rv(inner[1])
            if op in ("+", "-", "*", "/", "%"):
                return self._arith(op, a, b)
            if op in ("<", "<=", ">", ">=", "==", "!="):
                if isinstance(a, Ptr) and isinstance(b, Ptr):
                    a, b = a.off, b.off
                if isinstance(a, tuple) or isinstance(b, tuple):
                    raise CUnknown("comparison of array cells")
                if op in ("==", "!=") and (a is None or b is None or isinstance(a, Ptr) or isinstance(b, Ptr)):
                    same = (a is None and b is None) or (isinstance(a, Ptr) and isinstance(b, Ptr) and a.arr is b.arr and a.off == b.off) \
                        or (a is None and b == 0) or (b is None and a == 0)
                    return same if op == "==" else not same
                try:
                    return {"<": a < b, "<=": a <= b, ">": a > b, ">=": a >= b, "==": a == b, "!=": a != b}[op]
                except TypeError:
                    raise CUnknown("comparison")
            raise CUnknown(f"binary {op}")
        if k == "ConditionalOperator":
            return self.ev(inner[1]) if self.rv(inner[0]) else self.ev(inner[2])
        if k == "CallExpr":
            return self.call(n, inner)
        if k == "CXXOperatorCallExpr":
            nm = callee(n)
            args = inner[1:]
            if nm in ("operator()", "operator[]"):
                obj = self.rv(args[0])
                idx = [self.rv(a) for a in args[1:]]
                if isinstance(obj, Dense) and all(isinstance(i, int) for i in idx) and 1 <= len(idx) <= 2:
                    return self.dense_cell(obj, idx)
            if nm == "operator=":
                r = self.lv(args[0])
                r.set(self.rv(args[1]))
                return r
            raise CUnknown(f"operator call {nm}")
        if k == "CXXMemberCallExpr":
            me = inner[0]
            nm = me.get("name")
            obj = self.rv((me.get("inner") or [{}])[0])
            if isinstance(obj, Dense):
                if nm == "size":
                    return obj.rows * obj.cols
                if nm == "rows":
                    return obj.rows
                if nm == "cols":
                    return obj.cols
                if nm in ("x", "y", "z") and not inner[1:]:
                    return self.dense_cell(obj, [{"x": 0, "y": 1, "z": 2}[nm]]).get()
            if isinstance(obj, str):
                if nm in ("c_str", "data"):
                    return self.new_buffer(len(obj) + 1, list(obj) + ["\0"])
                if nm in ("size", "length"):
                    return len(obj)
                if nm == "empty":
                    return not obj
            raise CUnknown(f"member call {nm}")
        if k == "CXXConstructExpr":
            inner = [a for a in inner if a.get("kind") != "CXXDefaultArgExpr"]
            args = [self.rv(a) for a in inner]
            t = (n.get("type") or {}).get("qualType", "")
            if "string" in t:
                if not args:
                    return ""
                if len(args) == 1 and isinstance(args[0], str):
                    return args[0]
                if len(args) == 1 and isinstance(args[0], Ptr):
                    return self.c_string(args[0])
                if len(args) == 2 and isinstance(args[0], Ptr) and isinstance(args[1], int):
                    return self.c_string(args[0], args[1])
                if len(args) == 2 and isinstance(args[0], Ptr) and isinstance(args[1], Ptr) and args[0].arr is args[1].arr:
                    return self.c_string(args[0], args[1].off - args[0].off)
                raise CUnknown(f"construction of a string from {len(args)} argument(s)")
            if len(args) == 1 and isinstance(args[0], Dense):
                return args[0]                               # copy / move of a local into the return value
            if all(isinstance(a, int) for a in args):
                if "Matrix" in t and len(args) == 2:
                    return Dense(args[0], args[1])
                if "Vector" in t and len(args) == 1:
                    return Dense(args[0], 1, vector=True)
                if "Point2" in t and len(args) == 0:
                    return Dense(2, 1, vector=True)
                if "Point3" in t and len(args) == 0:
                    return Dense(3, 1, vector=True)
            if ("Point2" in t or "Point3" in t) and len(args) in (2, 3):
                d = Dense(len(args), 1, vector=True)
                for i, a in enumerate(args):
                    d.cells[(i, 0)] = a
                return d
            raise CUnknown(f"construction of {t}")
        if k == "UnaryExprOrTypeTraitExpr" and n.get("name") == "sizeof":
            t = (n.get("argType") or {}).get("qualType")
            if t is None and inner:
                e = inner[0]
                while e.get("kind") in _TRANSPARENT and e.get("inner"):
                    e = e["inner"][-1]
                t = (e.get("type") or {}).get("qualType")
            sz = _sizeof(t or "")
            if sz is None:
                raise CUnknown(f"sizeof({t})")
            return sz
        if k == "CXXNewExpr" and n.get("isArray"):
            size = next((c for c in inner if c.get("kind") not in ("CXXConstructExpr", "InitListExpr")), None)
            cnt = self.rv(size) if size is not None else None
            if not isinstance(cnt, int) or cnt < 0 or cnt > 100000:
                raise CUnknown("new[] with a size the interpreter cannot follow")
            return self.new_buffer(cnt)
        if k == "CXXDeleteExpr":
            p = self.rv(inner[0])
            if isinstance(p, Ptr):
                self.freed.append(p.arr)
            return None
        if k == "MemberExpr":
            raise CUnknown("member access")
        raise CUnknown(f"expression {k}")

    @staticmethod
    def _arith(op, a, b):
        if isinstance(a, Ptr) and isinstance(b, int) and op in "+-":
            return Ptr(a.arr, a.off + (b if op == "+" else -b))
        if isinstance(b, Ptr) and isinstance(a, int) and op == "+":
            return Ptr(b.arr, b.off + a)
        if isinstance(a, Ptr) and isinstance(b, Ptr) and op == "-":
            return a.off - b.off
        if isinstance(a, (int, float)) and isinstance(b, (int, float)):
            if op == "+":
                return a + b
            if op == "-":
                return a - b
            if op == "*":
                return a * b
            if op == "/":
                if b == 0:
                    raise CUnknown("division by zero")
                return a // b if isinstance(a, int) and isinstance(b, int) else a / b
            if op == "%":
                if b == 0:
                    raise CUnknown("division by zero")
                return a % b
        raise CUnknown("arithmetic on array cells")

    def call(self, n, inner):
        nm = callee(n)
        args = inner[1:]
        if nm in ("error", "mexErrMsgTxt", "mexErrMsgIdAndTxt"):
            raise CError(nm)
        if nm in ("mxGetM", "mxGetN", "mxGetNumberOfElements", "mxGetData", "mxGetPr", "mxIsDouble", "mxIsChar", "mxIsComplex", "mxGetClassID", "mxIsEmpty"):
            a = self.rv(args[0])
            if not isinstance(a, MxArray):
                raise CUnknown(f"{nm} of something that is not a sample array")
            return {"mxGetM": a.m, "mxGetN": a.n, "mxGetNumberOfElements": a.m * a.n, "mxGetData": Ptr(a), "mxGetPr": Ptr(a),
                    "mxIsDouble": a.cls == "mxDOUBLE_CLASS", "mxIsChar": a.cls == "mxCHAR_CLASS", "mxIsComplex": False, "mxGetClassID": a.cls,
                    "mxIsEmpty": a.m * a.n == 0}[nm]
        if nm == "mxArrayToString":
            a = self.rv(args[0])
            if not isinstance(a, MxArray):
                raise CUnknown("mxArrayToString of something that is not a sample array")
            if a.cls != "mxCHAR_CLASS":
                return None
            return self.new_buffer(len(a.data) + 1, list(a.data) + ["\0"])
        if nm == "mxGetString":
            a, p, ln = self.rv(args[0]), self.rv(args[1]), self.rv(args[2])
            if not isinstance(a, MxArray) or not isinstance(p, Ptr) or not isinstance(ln, int):
                raise CUnknown("mxGetString with arguments the interpreter cannot follow")
            if a.cls != "mxCHAR_CLASS" or ln < 1:
                return 1
            fits = len(a.data) <= ln - 1            # documented: copies at most strlen - 1 characters, then the NUL; 1 when it had to cut
            take = a.data[:ln - 1]
            for k_, c in enumerate(take):
                self.cell(p, k_).set(c)
            self.cell(p, len(take)).set("\0")
            return 0 if fits else 1
        if nm == "mxCreateString":
            p = self.rv(args[0])
            txt = self.c_string(p)
            a = MxArray(1 if txt else 0, len(txt), list(txt), cls="mxCHAR_CLASS")
            self.created.append(a)
            return a
        if nm == "mxFree":
            p = self.rv(args[0])
            if isinstance(p, Ptr):
                self.freed.append(p.arr)
            return None
        if nm == "strlen":
            return len(self.c_string(self.rv(args[0])))
        if nm in ("memcpy", "strncpy") and len(args) == 3:
            d, s_, cnt = self.rv(args[0]), self.rv(args[1]), self.rv(args[2])
            if not (isinstance(d, Ptr) and isinstance(s_, Ptr) and isinstance(cnt, int)):
                raise CUnknown(f"{nm} with arguments the interpreter cannot follow")
            for k_ in range(cnt):
                self.tick()
                c = self.cell(s_, k_).get()
                self.cell(d, k_).set(c)
                if nm == "strncpy" and c == "\0":
                    break
            return d
        if nm == "mxGetChars":
            a = self.rv(args[0])
            if not isinstance(a, MxArray):
                raise CUnknown("mxGetChars of something that is not a sample array")
            return Ptr(a) if a.cls == "mxCHAR_CLASS" else None
        if nm in ("mxGetNumberOfDimensions", "mxGetDimensions", "mxIsScalar", "mxIsNumeric", "mxIsLogical"):
            a = self.rv(args[0])
            if not isinstance(a, MxArray):
                raise CUnknown(f"{nm} of something that is not a sample array")
            if nm == "mxGetNumberOfDimensions":
                return len(a.dims)
            if nm == "mxGetDimensions":
                return self.new_buffer(len(a.dims), list(a.dims))
            if nm == "mxIsScalar":
                return a.m * a.n == 1
            if nm == "mxIsLogical":
                return a.cls == "mxLOGICAL_CLASS"
            return a.cls not in ("mxCHAR_CLASS", "mxLOGICAL_CLASS", "mxCELL_CLASS", "mxSTRUCT_CLASS")
        if nm in ("max", "min") and len(args) == 2:
            a, b = self.rv(args[0]), self.rv(args[1])
            if isinstance(a, (int, float)) and isinstance(b, (int, float)):
                return max(a, b) if nm == "max" else min(a, b)
            raise CUnknown(f"{nm} of array cells")
        if nm in ("mxCreateDoubleMatrix", "mxCreateNumericMatrix"):
            m, k_ = self.rv(args[0]), self.rv(args[1])
            if not (isinstance(m, int) and isinstance(k_, int)) or m < 0 or k_ < 0:
                raise CUnknown("array created with sizes the interpreter cannot follow")
            a = MxArray(m, k_)
            self.created.append(a)
            return a
        raise CUnknown(f"call of {nm}")

    # ------------------------------------------------------------------ statements
    def run(self, st):
        self.tick()
        k = st.get("kind")
        inner = [c for c in (st.get("inner") or []) if isinstance(c, dict)]
        if k == "CompoundStmt":
            for s in inner:
                if s:
                    self.run(s)
        elif k == "DeclStmt":
            for v in inner:
                if v.get("kind") != "VarDecl":
                    continue
                init = [c for c in (v.get("inner") or []) if isinstance(c, dict) and c]
                t = (v.get("type") or {}).get("qualType", "")
                am = _ARRAY_T.match(t)
                if am and not init:
                    self.env[v["name"]] = self.new_buffer(int(am.group(2)))
                elif init:
                    self.env[v["name"]] = self.rv(init[-1])
                elif "Point2" in t:
                    self.env[v["name"]] = Dense(2, 1, vector=True)
                elif "Point3" in t:
                    self.env[v["name"]] = Dense(3, 1, vector=True)
                else:
                    self.env[v["name"]] = 0
        elif k == "ForStmt":
            raw = st.get("inner") or []
            init, cond, inc, body = raw[0], raw[2], raw[3], raw[4]
            if init:
                self.run(init)
            while True:
                self.tick()
                if cond and not self.rv(cond):
                    break
                try:
                    if body:
                        self.run(body)
                except _Brk:
                    break
                except _Cont:
                    pass
                if inc:
                    self.rv(inc)
        elif k == "WhileStmt":
            cond, body = inner[-2], inner[-1]
            while self.rv(cond):
                self.tick()
                try:
                    self.run(body)
                except _Brk:
                    break
                except _Cont:
                    pass
        elif k == "IfStmt":
            if self.rv(inner[0]):
                self.run(inner[1])
            elif len(inner) > 2:
                self.run(inner[2])
        elif k == "ReturnStmt":
            raise _Ret(self.rv(inner[0]) if inner and inner[0] else None)
        elif k == "BreakStmt":
            raise _Brk()
        elif k == "ContinueStmt":
            raise _Cont()
        elif k == "NullStmt":
            return
        else:
            self.rv(st)


def run_function(f: dict, args: Dict[str, object], budget: int = 20000):
    """Runs FunctionDecl f with the given values for its parameters; returns (result, machine)."""
    m = Machine(budget)
    params = [p for p in f.get("inner", []) if p.get("kind") == "ParmVarDecl"]
    for p in params:
        if p.get("name") not in args:
            raise CUnknown(f"no sample for parameter {p.get('name')}")
        m.env[p["name"]] = args[p["name"]]
    try:
        for st in statements(f):
            m.run(st)
    except _Ret as r:
        return r.v, m
    return None, m
