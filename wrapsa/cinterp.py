"""A small interpreter for the copy loops of matlab.h, working on clang's JSON AST (Engine X).

It executes a converter (wrap<Vector>, unwrap<Matrix>, ...) on *sample* arrays whose cells are symbols, so that the rule can
read off which cell ended up where.  Nothing of the header is compiled or run: the interpreter walks the AST with its own
model of the handful of MEX functions and of the vector / matrix stand-ins (size / rows / cols / operator()).  Anything it
does not know raises CUnknown and the rule falls back to the recogniser of loop shapes."""
from __future__ import annotations

from typing import Dict, List, Optional

from .clangx import callee, statements


import re

_ARRAY_T = re.compile(r"^(?:const )?([\w ]+?)\s*\[(\d+)\]$")
_ELEM = {"char": 1, "unsigned char": 1, "signed char": 1, "bool": 1, "short": 2, "unsigned short": 2, "int": 4, "unsigned int": 4, "float": 4,
         "long": 8, "unsigned long": 8, "size_t": 8, "mwSize": 8, "double": 8, "long long": 8, "unsigned long long": 8, "mxChar": 2}


def _sizeof(t: str) -> Optional[int]:
    t = t.replace("const ", "").strip()
    m = _ARRAY_T.match(t)
    if m:
        e = _ELEM.get(m.group(1).strip())
        return e * int(m.group(2)) if e else None
    if t.endswith("*"):
        return 8
    return _ELEM.get(t)


# LP64, little-endian: (size in bytes, kind) - i signed, u unsigned, b bool, f floating
C_TYPES = {"char": (1, "i"), "signed char": (1, "i"), "unsigned char": (1, "u"), "bool": (1, "b"), "short": (2, "i"), "unsigned short": (2, "u"),
           "int": (4, "i"), "unsigned int": (4, "u"), "unsigned": (4, "u"), "long": (8, "i"), "unsigned long": (8, "u"), "long long": (8, "i"),
           "unsigned long long": (8, "u"), "float": (4, "f"), "double": (8, "f")}
C_ALIASES = {"size_t": "unsigned long", "std::size_t": "unsigned long", "mwSize": "unsigned long", "mwIndex": "unsigned long", "std::int64_t": "long",
             "int64_t": "long", "std::uint64_t": "unsigned long", "uint64_t": "unsigned long", "std::int32_t": "int", "int32_t": "int",
             "std::uint32_t": "unsigned int", "uint32_t": "unsigned int", "std::int16_t": "short", "int16_t": "short", "std::uint16_t": "unsigned short",
             "uint16_t": "unsigned short", "std::int8_t": "signed char", "int8_t": "signed char", "std::uint8_t": "unsigned char", "uint8_t": "unsigned char",
             "mxLogical": "bool", "mxChar": "unsigned short", "mxClassID": "int", "mxComplexity": "int"}
MX_CLASSES = {"mxINT8_CLASS": (1, "i"), "mxUINT8_CLASS": (1, "u"), "mxINT16_CLASS": (2, "i"), "mxUINT16_CLASS": (2, "u"), "mxINT32_CLASS": (4, "i"),
              "mxUINT32_CLASS": (4, "u"), "mxINT64_CLASS": (8, "i"), "mxUINT64_CLASS": (8, "u"), "mxLOGICAL_CLASS": (1, "b"), "mxCHAR_CLASS": (2, "u"),
              "mxDOUBLE_CLASS": (8, "f"), "mxSINGLE_CLASS": (4, "f")}


def c_type(name: str, tmap: Optional[Dict[str, str]] = None):
    """(size, kind) of an arithmetic C type name, None for anything else (pointers, classes)."""
    t = (name or "").replace("const ", "").replace("volatile ", "").replace("&", "").strip()
    if tmap and t in tmap:
        t = tmap[t].replace("const ", "").replace("&", "").strip()
    t = C_ALIASES.get(t, t)
    return C_TYPES.get(t)


def c_convert(v, spec):
    """The C++ conversion of an arithmetic value to the type (size, kind); values that are not numbers pass through."""
    if spec is None or isinstance(v, bool) and spec[1] == "b":
        return v
    if not isinstance(v, (int, float, bool)):
        return v
    size, kind = spec
    if kind == "b":
        return v != 0
    if kind == "f":
        import struct
        fv = float(v)
        return struct.unpack("<f", struct.pack("<f", fv))[0] if size == 4 else fv
    if isinstance(v, float):
        if v != v or v in (float("inf"), float("-inf")):
            raise CUnknown("conversion of a non-finite value to an integer")
        v = int(v)                                        # towards zero
    v = int(v) & ((1 << (8 * size)) - 1)
    if kind == "i" and v >= 1 << (8 * size - 1):
        v -= 1 << (8 * size)
    return v


def raw_decode(b: bytes, spec):
    import struct
    size, kind = spec
    if kind == "f":
        return struct.unpack("<d" if size == 8 else "<f", bytes(b))[0]
    v = int.from_bytes(bytes(b), "little", signed=(kind == "i"))
    return (v != 0) if kind == "b" else v


def raw_encode(v, spec) -> bytes:
    import struct
    size, kind = spec
    if kind == "f":
        return struct.pack("<d" if size == 8 else "<f", float(v))
    if kind == "b":
        return bytes([1 if v else 0])
    return (int(c_convert(v, spec)) & ((1 << (8 * size)) - 1)).to_bytes(size, "little")


class CUnknown(Exception):
    pass


class CError(Exception):
    """The interpreted function called error()."""


class _Ret(Exception):
    def __init__(self, v):
        self.v = v


class _Brk(Exception):
    pass


class _Cont(Exception):
    pass


class MxArray:
    def __init__(self, m: int, n: int, cells: Optional[List[object]] = None, cls: str = "mxDOUBLE_CLASS", dims: Optional[List[int]] = None):
        # dims: the extents of an N-d array; MATLAB reports mxGetM = dims[0] and mxGetN = the product of all the others
        if dims is not None:
            m, n = dims[0], 1
            for d in dims[1:]:
                n *= d
        self.m, self.n, self.cls = m, n, cls
        self.dims = list(dims) if dims is not None else [m, n]
        self.data: List[object] = list(cells) if cells is not None else [0.0] * (m * n)
        self.oob: List[str] = []
        self.raw: Optional[bytearray] = None               # byte-level storage (typed mode): element size from the class

    @staticmethod
    def numeric(cls: str, values: List[object], dims: Optional[List[int]] = None) -> "MxArray":
        """An array of class `cls` holding `values`, stored as bytes (little-endian, zero-initialised like mxCreateNumeric*)."""
        spec = MX_CLASSES[cls]
        a = MxArray(0, 0, list(values), cls=cls, dims=dims or [1 if values else 0, len(values)])
        a.raw = bytearray(b"".join(raw_encode(v, spec) for v in values))
        return a

    def element(self, k: int = 0):
        spec = MX_CLASSES.get(self.cls)
        if self.raw is None or spec is None:
            return self.data[k] if 0 <= k < len(self.data) else None
        if (k + 1) * spec[0] > len(self.raw):
            return None
        return raw_decode(self.raw[k * spec[0]:(k + 1) * spec[0]], spec)


class Ptr:
    def __init__(self, arr: MxArray, off: int = 0, ctype=None):
        self.arr, self.off = arr, off
        self.ctype = ctype                                 # (size, kind) of the pointee for a typed pointer into byte storage


class Dense:
    """gtsam::Vector / Matrix / Point stand-in: cells addressed by (i) or (i, j)."""

    def __init__(self, rows: int, cols: int = 1, cells: Optional[Dict] = None, vector: bool = False):
        self.rows, self.cols, self.vector = rows, cols, vector
        self.cells: Dict = dict(cells) if cells is not None else {}
        self.oob: List[str] = []


class Ref:
    """An lvalue: a local variable, an array cell, a dense cell."""

    def __init__(self, get, set_):
        self.get, self.set = get, set_


_TRANSPARENT = ("ImplicitCastExpr", "ParenExpr", "MaterializeTemporaryExpr", "ExprWithCleanups", "CXXBindTemporaryExpr", "CXXFunctionalCastExpr",
                "ConstantExpr", "CStyleCastExpr", "CXXStaticCastExpr", "CXXReinterpretCastExpr", "CXXConstCastExpr")


class Machine:
    def __init__(self, budget: int = 20000):
        self.env: Dict[str, object] = {}
        self.steps = 0
        self.budget = budget
        self.created: List[MxArray] = []
        self.buffers: List[MxArray] = []
        self.faults: List[str] = []
        self.freed: List[MxArray] = []
        self.typed = False                                 # arithmetic conversions and byte-level stores are modelled
        self.header = None                                 # HeaderAST: calls of functions defined in the header are followed
        self.tmaps: List[Dict[str, str]] = [{}]            # template parameter -> type, per active call
        self.depth = 0

    # ------------------------------------------------------------------ values
    def tick(self):
        self.steps += 1
        if self.steps > self.budget:
            raise CUnknown("too many steps")

    def rv(self, n):
        v = self.ev(n)
        return v.get() if isinstance(v, Ref) else v

    def lv(self, n) -> Ref:
        v = self.ev(n)
        if not isinstance(v, Ref):
            raise CUnknown("assignment to something that is not an lvalue")
        return v

    def cell(self, p: Ptr, k: int) -> Ref:
        arr, idx = p.arr, p.off + k
        if arr.raw is not None:
            spec = p.ctype or MX_CLASSES.get(arr.cls)
            if spec is None:
                raise CUnknown("untyped access to byte storage")
            lo, hi = idx * spec[0], (idx + 1) * spec[0]

            def rget():
                if lo < 0 or hi > len(arr.raw):
                    arr.oob.append(f"read of bytes {lo}..{hi - 1} of an array of {len(arr.raw)} byte(s)")
                    return 0
                return raw_decode(arr.raw[lo:hi], spec)

            def rset(v):
                if lo < 0 or hi > len(arr.raw):
                    arr.oob.append(f"write to bytes {lo}..{hi - 1} of an array of {len(arr.raw)} byte(s)")
                    return
                if not isinstance(v, (int, float, bool)):
                    raise CUnknown("store of a value that is not a number into byte storage")
                arr.raw[lo:hi] = raw_encode(v, spec)
            return Ref(rget, rset)

        def get():
            if 0 <= idx < len(arr.data):
                return arr.data[idx]
            arr.oob.append(f"read of element {idx} of {'a buffer' if arr.cls == 'buffer' else 'an array'} with {len(arr.data)} element(s)")
            return ("outside", idx)

        def set_(v):
            if 0 <= idx < len(arr.data):
                arr.data[idx] = v
            else:
                arr.oob.append(f"write to element {idx} of {'a buffer' if arr.cls == 'buffer' else 'an array'} with {len(arr.data)} element(s)")
        return Ref(get, set_)

    # ------------------------------------------------------------------ character buffers and strings
    def new_buffer(self, n: int, cells: Optional[List[object]] = None) -> Ptr:
        b = MxArray(1, n, cells if cells is not None else [("uninitialised", k) for k in range(n)], cls="buffer")
        self.buffers.append(b)
        return Ptr(b)

    def c_string(self, p, limit: Optional[int] = None) -> str:
        """The characters a C string function reads from p: up to the NUL (or `limit` characters)."""
        if not isinstance(p, Ptr):
            raise CUnknown("string built from something that is not a character pointer")
        out = []
        k = 0
        while limit is None or k < limit:
            self.tick()
            c = self.cell(p, k).get()
            if isinstance(c, int) and not isinstance(c, bool):
                c = "\0" if c == 0 else chr(c & 0xFF)            # a byte written as a number (typed mode)
            if c == "\0" and limit is None:
                break
            if not isinstance(c, str):
                self.faults.append(f"reads {'an uninitialised byte' if c[0] == 'uninitialised' else 'a byte outside the buffer'} (offset {p.off + k} of "
                                   f"{len(p.arr.data)}) while looking for the end of the string")
                break
            out.append(c)
            k += 1
        return "".join(out)

    def dense_cell(self, d: Dense, idx) -> Ref:
        key = tuple(idx) if len(idx) > 1 else (idx[0], 0)
        if len(idx) == 1 and not d.vector and d.cols != 1:
            # linear index into a matrix (column-major)
            key = (idx[0] % d.rows if d.rows else 0, idx[0] // d.rows if d.rows else 0)

        def inside():
            return 0 <= key[0] < d.rows and 0 <= key[1] < d.cols

        def get():
            if inside():
                return d.cells.get(key, 0.0)
            d.oob.append(f"read of element {key} of a {d.rows}x{d.cols} object")
            return ("outside", key)

        def set_(v):
            if inside():
                d.cells[key] = v
            else:
                d.oob.append(f"write to element {key} of a {d.rows}x{d.cols} object")
        return Ref(get, set_)

    # ------------------------------------------------------------------ expressions
    def ev(self, n):
        self.tick()
        k = n.get("kind")
        inner = [c for c in (n.get("inner") or []) if isinstance(c, dict) and c]
        if k in _TRANSPARENT:
            if not self.typed or k not in ("ImplicitCastExpr", "CStyleCastExpr", "CXXStaticCastExpr", "CXXReinterpretCastExpr", "CXXFunctionalCastExpr"):
                return self.ev(inner[-1]) if inner else None
            ck = n.get("castKind")
            if ck in ("LValueToRValue", "NoOp", "FunctionToPointerDecay", "ArrayToPointerDecay", "NullToPointer", "ConstructorConversion", "UserDefinedConversion") \
                    or not inner:
                return self.ev(inner[-1]) if inner else None
            t = (n.get("type") or {})
            tn = t.get("qualType", "")
            if tn.rstrip().endswith("*"):
                v = self.rv(inner[-1])
                if isinstance(v, Ptr):
                    spec = c_type(tn.rstrip()[:-1], self.tmaps[-1])
                    return Ptr(v.arr, v.off, spec) if spec is not None and v.arr.raw is not None else v
                return v
            spec = c_type(tn, self.tmaps[-1]) or c_type(t.get("desugaredQualType", ""), self.tmaps[-1])
            v = self.rv(inner[-1])
            return c_convert(v, spec)
        if k == "IntegerLiteral":
            return int(n.get("value"))
        if k == "CharacterLiteral":
            return int(n.get("value"))
        if k == "FloatingLiteral":
            return float(n.get("value"))
        if k == "CXXBoolLiteralExpr":
            return bool(n.get("value"))
        if k in ("StringLiteral", "CXXNullPtrLiteralExpr", "GNUNullExpr"):
            return n.get("value")
        if k == "DeclRefExpr":
            nm = (n.get("referencedDecl") or {}).get("name")
            if nm in self.env:
                env = self.env
                return Ref(lambda: env[nm], lambda v: env.__setitem__(nm, v))
            if nm in ("mxREAL", "mxCOMPLEX") or (nm or "").endswith("_CLASS"):
                return nm
            raise CUnknown(f"name {nm}")
        if k == "UnaryOperator":
            op = n.get("opcode")
            if op in ("++", "--"):
                r = self.lv(inner[0])
                old = r.get()
                d = 1 if op == "++" else -1
                new = Ptr(old.arr, old.off + d) if isinstance(old, Ptr) else old + d
                r.set(new)
                return old if n.get("isPostfix") else new
            if op == "*":
                p = self.rv(inner[0])
                if not isinstance(p, Ptr):
                    raise CUnknown("dereference of something that is not a pointer into an array")
                return self.cell(p, 0)
            if op == "-":
                return -self.rv(inner[0])
            if op == "+":
                return self.rv(inner[0])
            if op == "!":
                return not self.rv(inner[0])
            if op == "&":
                v = self.ev(inner[0])
                raise CUnknown("address-of")
            raise CUnknown(f"unary {op}")
        if k == "ArraySubscriptExpr":
            p, i = self.rv(inner[0]), self.rv(inner[1])
            if isinstance(i, Ptr):
                p, i = i, p
            if not isinstance(p, Ptr) or not isinstance(i, int):
                raise CUnknown("subscript")
            return self.cell(p, i)
        if k in ("BinaryOperator", "CompoundAssignOperator"):
            op = n.get("opcode")
            if op == ",":
                self.rv(inner[0])
                return self.ev(inner[1])
            if op == "=":
                r = self.lv(inner[0])
                v = self.rv(inner[1])
                r.set(v)
                return r
            if op in ("+=", "-=", "*=", "/="):
                r = self.lv(inner[0])
                v = self._arith(op[0], r.get(), self.rv(inner[1]))
                r.set(v)
                return r
            if op == "&&":
                return bool(self.rv(inner[0])) and bool(self.rv(inner[1]))
            if op == "||":
                return bool(self.rv(inner[0])) or bool(self.rv(inner[1]))
            a, b = self.rv(inner[0]), self.rv(inner[1])
            if op in ("+", "-", "*", "/", "%"):
                return self._arith(op, a, b)
            if op in ("<", "<=", ">", ">=", "==", "!="):
                if isinstance(a, Ptr) and isinstance(b, Ptr):
                    a, b = a.off, b.off
                if isinstance(a, tuple) or isinstance(b, tuple):
                    raise CUnknown("comparison of array cells")
                if op in ("==", "!=") and (a is None or b is None or isinstance(a, Ptr) or isinstance(b, Ptr)):
                    same = (a is None and b is None) or (isinstance(a, Ptr) and isinstance(b, Ptr) and a.arr is b.arr and a.off == b.off) \
                        or (a is None and b == 0) or (b is None and a == 0)
                    return same if op == "==" else not same
                try:
                    return {"<": a < b, "<=": a <= b, ">": a > b, ">=": a >= b, "==": a == b, "!=": a != b}[op]
                except TypeError:
                    raise CUnknown("comparison")
            raise CUnknown(f"binary {op}")
        if k == "ConditionalOperator":
            return self.ev(inner[1]) if self.rv(inner[0]) else self.ev(inner[2])
        if k == "CallExpr":
            return self.call(n, inner)
        if k == "CXXOperatorCallExpr":
            nm = callee(n)
            args = inner[1:]
            if nm in ("operator()", "operator[]"):
                obj = self.rv(args[0])
                idx = [self.rv(a) for a in args[1:]]
                if isinstance(obj, Dense) and all(isinstance(i, int) for i in idx) and 1 <= len(idx) <= 2:
                    return self.dense_cell(obj, idx)
            if nm == "operator=":
                r = self.lv(args[0])
                r.set(self.rv(args[1]))
                return r
            raise CUnknown(f"operator call {nm}")
        if k == "CXXMemberCallExpr":
            me = inner[0]
            nm = me.get("name")
            obj = self.rv((me.get("inner") or [{}])[0])
            if isinstance(obj, Dense):
                if nm == "size":
                    return obj.rows * obj.cols
                if nm == "rows":
                    return obj.rows
                if nm == "cols":
                    return obj.cols
                if nm in ("x", "y", "z") and not inner[1:]:
                    return self.dense_cell(obj, [{"x": 0, "y": 1, "z": 2}[nm]]).get()
            if isinstance(obj, str):
                if nm in ("c_str", "data"):
                    return self.new_buffer(len(obj) + 1, list(obj) + ["\0"])
                if nm in ("size", "length"):
                    return len(obj)
                if nm == "empty":
                    return not obj
            raise CUnknown(f"member call {nm}")
        if k == "CXXConstructExpr":
            inner = [a for a in inner if a.get("kind") != "CXXDefaultArgExpr"]
            args = [self.rv(a) for a in inner]
            t = (n.get("type") or {}).get("qualType", "")
            if "string" in t:
                if not args:
                    return ""
                if len(args) == 1 and isinstance(args[0], str):
                    return args[0]
                if len(args) == 1 and isinstance(args[0], Ptr):
                    return self.c_string(args[0])
                if len(args) == 2 and isinstance(args[0], Ptr) and isinstance(args[1], int):
                    return self.c_string(args[0], args[1])
                if len(args) == 2 and isinstance(args[0], Ptr) and isinstance(args[1], Ptr) and args[0].arr is args[1].arr:
                    return self.c_string(args[0], args[1].off - args[0].off)
                raise CUnknown(f"construction of a string from {len(args)} argument(s)")
            if len(args) == 1 and isinstance(args[0], Dense):
                return args[0]                               # copy / move of a local into the return value
            if all(isinstance(a, int) for a in args):
                if "Matrix" in t and len(args) == 2:
                    return Dense(args[0], args[1])
                if "Vector" in t and len(args) == 1:
                    return Dense(args[0], 1, vector=True)
                if "Point2" in t and len(args) == 0:
                    return Dense(2, 1, vector=True)
                if "Point3" in t and len(args) == 0:
                    return Dense(3, 1, vector=True)
            if ("Point2" in t or "Point3" in t) and len(args) in (2, 3):
                d = Dense(len(args), 1, vector=True)
                for i, a in enumerate(args):
                    d.cells[(i, 0)] = a
                return d
            raise CUnknown(f"construction of {t}")
        if k == "UnaryExprOrTypeTraitExpr" and n.get("name") == "sizeof":
            t = (n.get("argType") or {}).get("qualType")
            if t is None and inner:
                e = inner[0]
                while e.get("kind") in _TRANSPARENT and e.get("inner"):
                    e = e["inner"][-1]
                t = (e.get("type") or {}).get("qualType")
            sz = _sizeof(t or "")
            if sz is None:
                raise CUnknown(f"sizeof({t})")
            return sz
        if k == "CXXNewExpr" and n.get("isArray"):
            size = next((c for c in inner if c.get("kind") not in ("CXXConstructExpr", "InitListExpr")), None)
            cnt = self.rv(size) if size is not None else None
            if not isinstance(cnt, int) or cnt < 0 or cnt > 100000:
                raise CUnknown("new[] with a size the interpreter cannot follow")
            return self.new_buffer(cnt)
        if k == "CXXDeleteExpr":
            p = self.rv(inner[0])
            if isinstance(p, Ptr):
                self.freed.append(p.arr)
            return None
        if k == "DependentScopeDeclRefExpr" and self.header is not None:
            # `std::numeric_limits<T>::is_integer` and its siblings (constants, not calls)
            rg = n.get("range") or {}
            try:
                if getattr(self, "_src", None) is None:
                    self._src = open(self.header.header, encoding="utf-8", errors="replace").read()
                text = self._src[rg["begin"]["offset"]:rg["end"]["offset"] + rg["end"].get("tokLen", 0)].replace(" ", "")
            except (KeyError, OSError):
                raise CUnknown("dependent name")
            import re as _re
            m = _re.fullmatch(r"(?:std::)?numeric_limits<([\w: ]+)>::(is_integer|is_signed|is_exact|is_specialized|has_infinity|digits)", text)
            spec = c_type(m.group(1), self.tmaps[-1]) if m else None
            if spec is None:
                raise CUnknown(f"dependent name {text[:40]}")
            size, kind = spec
            return {"is_integer": kind != "f", "is_signed": kind in ("i", "f"), "is_exact": kind != "f", "is_specialized": True, "has_infinity": kind == "f",
                    "digits": (53 if size == 8 else 24) if kind == "f" else (1 if kind == "b" else 8 * size - (1 if kind == "i" else 0))}[m.group(2)]
        if k == "MemberExpr":
            raise CUnknown("member access")
        raise CUnknown(f"expression {k}")

    @staticmethod
    def _arith(op, a, b):
        if isinstance(a, Ptr) and isinstance(b, int) and op in "+-":
            return Ptr(a.arr, a.off + (b if op == "+" else -b))
        if isinstance(b, Ptr) and isinstance(a, int) and op == "+":
            return Ptr(b.arr, b.off + a)
        if isinstance(a, Ptr) and isinstance(b, Ptr) and op == "-":
            return a.off - b.off
        if isinstance(a, (int, float)) and isinstance(b, (int, float)):
            if op == "+":
                return a + b
            if op == "-":
                return a - b
            if op == "*":
                return a * b
            if op == "/":
                if b == 0:
                    raise CUnknown("division by zero")
                return a // b if isinstance(a, int) and isinstance(b, int) else a / b
            if op == "%":
                if b == 0:
                    raise CUnknown("division by zero")
                return a % b
        raise CUnknown("arithmetic on array cells")

    def limits_call(self, n, inner):
        """`std::numeric_limits<T>::max()` / `lowest()` / `min()` inside a template: clang leaves the callee dependent, so the name
        is read from the header text at the node's range and T is taken from the active call's template binding."""
        fx = inner[0] if inner else {}
        while isinstance(fx, dict) and fx.get("kind") in _TRANSPARENT and fx.get("inner"):
            fx = fx["inner"][-1]
        if fx.get("kind") != "DependentScopeDeclRefExpr" or self.header is None:
            return None
        rg = fx.get("range") or {}
        try:
            b, e_ = rg["begin"]["offset"], rg["end"]["offset"] + rg["end"].get("tokLen", 0)
            if getattr(self, "_src", None) is None:
                self._src = open(self.header.header, encoding="utf-8", errors="replace").read()
            text = self._src[b:e_].replace(" ", "")
        except (KeyError, OSError):
            return None
        import re as _re
        m = _re.fullmatch(r"(?:std::)?numeric_limits<([\w: ]+)>::(max|min|lowest|infinity|epsilon)", text)
        if not m:
            return None
        spec = c_type(m.group(1), self.tmaps[-1])
        if spec is None:
            raise CUnknown(f"numeric_limits of {m.group(1)}")
        size, kind = spec
        what = m.group(2)
        if kind == "f":
            import sys as _sys
            big = _sys.float_info.max if size == 8 else 3.4028234663852886e+38
            tiny = _sys.float_info.min if size == 8 else 1.1754943508222875e-38
            return {"max": big, "lowest": -big, "min": tiny, "infinity": float("inf"), "epsilon": _sys.float_info.epsilon}[what]
        if kind == "b":
            return {"max": True, "lowest": False, "min": False}.get(what, False)
        hi = (1 << (8 * size - 1)) - 1 if kind == "i" else (1 << (8 * size)) - 1
        lo = -(1 << (8 * size - 1)) if kind == "i" else 0
        return {"max": hi, "lowest": lo, "min": lo}.get(what, 0)

    def call(self, n, inner):
        lim = self.limits_call(n, inner)
        if lim is not None:
            return lim
        nm = callee(n)
        args = inner[1:]
        if nm in ("error", "mexErrMsgTxt", "mexErrMsgIdAndTxt"):
            raise CError(nm)
        if nm in ("mxGetM", "mxGetN", "mxGetNumberOfElements", "mxGetData", "mxGetPr", "mxIsDouble", "mxIsChar", "mxIsComplex", "mxGetClassID", "mxIsEmpty"):
            a = self.rv(args[0])
            if not isinstance(a, MxArray):
                raise CUnknown(f"{nm} of something that is not a sample array")
            return {"mxGetM": a.m, "mxGetN": a.n, "mxGetNumberOfElements": a.m * a.n, "mxGetData": Ptr(a), "mxGetPr": Ptr(a),
                    "mxIsDouble": a.cls == "mxDOUBLE_CLASS", "mxIsChar": a.cls == "mxCHAR_CLASS", "mxIsComplex": False, "mxGetClassID": a.cls,
                    "mxIsEmpty": a.m * a.n == 0}[nm]
        if nm in ("mxGetScalar", "mxCreateDoubleScalar", "mxCreateLogicalScalar", "mxCreateNumericArray") or \
                (nm == "mxCreateNumericMatrix" and self.typed):
            if nm == "mxGetScalar":
                a = self.rv(args[0])
                if not isinstance(a, MxArray):
                    raise CUnknown("mxGetScalar of something that is not a sample array")
                v = a.element(0)
                if v is None:
                    a.oob.append("mxGetScalar of an empty array")
                    return 0.0
                if not isinstance(v, (int, float, bool)):
                    return v
                return float(v)                             # documented: the first element converted to double
            if nm == "mxCreateDoubleScalar":
                a = MxArray.numeric("mxDOUBLE_CLASS", [float(self.rv(args[0]))], dims=[1, 1])
            elif nm == "mxCreateLogicalScalar":
                a = MxArray.numeric("mxLOGICAL_CLASS", [bool(self.rv(args[0]))], dims=[1, 1])
            else:
                if nm == "mxCreateNumericArray":
                    nd, dp, cls_ = self.rv(args[0]), self.rv(args[1]), self.rv(args[2])
                    if not (isinstance(nd, int) and isinstance(dp, Ptr)):
                        raise CUnknown("mxCreateNumericArray with dimensions the interpreter cannot follow")
                    dims = [self.cell(dp, i_).get() for i_ in range(nd)]
                    if not all(isinstance(d_, int) and 0 <= d_ < 1000 for d_ in dims):
                        raise CUnknown("mxCreateNumericArray with dimensions the interpreter cannot follow")
                    if len(dims) == 1:
                        dims = dims + [1]                  # MATLAB arrays have at least two dimensions
                else:
                    m_, n_, cls_ = self.rv(args[0]), self.rv(args[1]), self.rv(args[2])
                    if not (isinstance(m_, int) and isinstance(n_, int)):
                        raise CUnknown("array created with sizes the interpreter cannot follow")
                    dims = [m_, n_]
                if cls_ not in MX_CLASSES:
                    raise CUnknown(f"array of class {cls_}")
                cnt = 1
                for d_ in dims:
                    cnt *= d_
                a = MxArray.numeric(cls_, [0] * cnt, dims=dims)
            self.created.append(a)
            return a
        if nm == "mxArrayToString":
            a = self.rv(args[0])
            if not isinstance(a, MxArray):
                raise CUnknown("mxArrayToString of something that is not a sample array")
            if a.cls != "mxCHAR_CLASS":
                return None
            return self.new_buffer(len(a.data) + 1, list(a.data) + ["\0"])
        if nm == "mxGetString":
            a, p, ln = self.rv(args[0]), self.rv(args[1]), self.rv(args[2])
            if not isinstance(a, MxArray) or not isinstance(p, Ptr) or not isinstance(ln, int):
                raise CUnknown("mxGetString with arguments the interpreter cannot follow")
            if a.cls != "mxCHAR_CLASS" or ln < 1:
                return 1
            fits = len(a.data) <= ln - 1            # documented: copies at most strlen - 1 characters, then the NUL; 1 when it had to cut
            take = a.data[:ln - 1]
            for k_, c in enumerate(take):
                self.cell(p, k_).set(c)
            self.cell(p, len(take)).set("\0")
            return 0 if fits else 1
        if nm == "mxCreateString":
            p = self.rv(args[0])
            txt = self.c_string(p)
            if self.typed:
                a = MxArray.numeric("mxCHAR_CLASS", [ord(c_) for c_ in txt], dims=[1 if txt else 0, len(txt)])
                a.data = list(txt)
            else:
                a = MxArray(1 if txt else 0, len(txt), list(txt), cls="mxCHAR_CLASS")
            self.created.append(a)
            return a
        if nm == "mxFree":
            p = self.rv(args[0])
            if isinstance(p, Ptr):
                self.freed.append(p.arr)
            return None
        if nm == "strlen":
            return len(self.c_string(self.rv(args[0])))
        if nm in ("memcpy", "strncpy") and len(args) == 3:
            d, s_, cnt = self.rv(args[0]), self.rv(args[1]), self.rv(args[2])
            if not (isinstance(d, Ptr) and isinstance(s_, Ptr) and isinstance(cnt, int)):
                raise CUnknown(f"{nm} with arguments the interpreter cannot follow")
            for k_ in range(cnt):
                self.tick()
                c = self.cell(s_, k_).get()
                self.cell(d, k_).set(c)
                if nm == "strncpy" and c == "\0":
                    break
            return d
        if nm == "mxGetChars":
            a = self.rv(args[0])
            if not isinstance(a, MxArray):
                raise CUnknown("mxGetChars of something that is not a sample array")
            return Ptr(a) if a.cls == "mxCHAR_CLASS" else None
        if nm in ("mxGetNumberOfDimensions", "mxGetDimensions", "mxIsScalar", "mxIsNumeric", "mxIsLogical"):
            a = self.rv(args[0])
            if not isinstance(a, MxArray):
                raise CUnknown(f"{nm} of something that is not a sample array")
            if nm == "mxGetNumberOfDimensions":
                return len(a.dims)
            if nm == "mxGetDimensions":
                return self.new_buffer(len(a.dims), list(a.dims))
            if nm == "mxIsScalar":
                return a.m * a.n == 1
            if nm == "mxIsLogical":
                return a.cls == "mxLOGICAL_CLASS"
            return a.cls not in ("mxCHAR_CLASS", "mxLOGICAL_CLASS", "mxCELL_CLASS", "mxSTRUCT_CLASS")
        if nm in ("max", "min") and len(args) == 2:
            a, b = self.rv(args[0]), self.rv(args[1])
            if isinstance(a, (int, float)) and isinstance(b, (int, float)):
                return max(a, b) if nm == "max" else min(a, b)
            raise CUnknown(f"{nm} of array cells")
        if nm in ("mxCreateDoubleMatrix", "mxCreateNumericMatrix"):
            m, k_ = self.rv(args[0]), self.rv(args[1])
            if not (isinstance(m, int) and isinstance(k_, int)) or m < 0 or k_ < 0:
                raise CUnknown("array created with sizes the interpreter cannot follow")
            a = MxArray(m, k_)
            self.created.append(a)
            return a
        if self.header is not None and nm and self.depth < 4:
            cands = [g for g in self.header.functions(nm) if len([p for p in g.get("inner", []) if p.get("kind") == "ParmVarDecl"]) == len(args)]
            if len(cands) == 1:
                return self.call_defined(cands[0], n, args)
        raise CUnknown(f"call of {nm}")

    def call_defined(self, g, call, args):
        """Runs a function defined in the header with the evaluated arguments; a template's parameter is bound to the type the
        call instantiates it with (read off the callee's function type)."""
        from .clangx import strip as _strip
        params = [p for p in g.get("inner", []) if p.get("kind") == "ParmVarDecl"]
        vals = [self.rv(a) for a in args]
        tmap: Dict[str, str] = {}
        fn_ref = _strip((call.get("inner") or [{}])[0])
        inst = ((fn_ref.get("referencedDecl") or {}).get("type") or fn_ref.get("type") or {}).get("qualType", "")
        pat = (g.get("type") or {}).get("qualType", "")
        if inst and pat and inst != pat and "(" in inst and "(" in pat:
            ri, rp = inst[:inst.index("(")].strip(), pat[:pat.index("(")].strip()
            if rp.isidentifier() and rp != ri:
                tmap[rp] = ri
            for pi_, pp_ in zip(inst[inst.index("(") + 1:inst.rindex(")")].split(","), pat[pat.index("(") + 1:pat.rindex(")")].split(",")):
                pi_, pp_ = pi_.replace("const ", "").replace("&", "").strip(), pp_.replace("const ", "").replace("&", "").strip()
                if pp_.isidentifier() and pp_ != pi_ and pp_ not in C_TYPES and pp_ not in C_ALIASES:
                    tmap[pp_] = pi_
        saved = self.env
        self.env = {p.get("name"): v for p, v in zip(params, vals)}
        self.tmaps.append(tmap)
        self.depth += 1
        try:
            for st in statements(g):
                self.run(st)
            return None
        except _Ret as r:
            rt_ = (g.get("type") or {}).get("qualType", "")
            spec = c_type(rt_[:rt_.index("(")].strip(), tmap) if "(" in rt_ and self.typed else None
            return c_convert(r.v, spec)
        finally:
            self.depth -= 1
            self.tmaps.pop()
            self.env = saved

    def case_label(self, e):
        """The value of a case label: the enumerator's name where it is one (class ids are compared by name), else its number."""
        x = e
        while isinstance(x, dict) and x.get("kind") in _TRANSPARENT + ("ConstantExpr",) and x.get("inner"):
            x = x["inner"][-1]
        if x.get("kind") == "DeclRefExpr":
            return (x.get("referencedDecl") or {}).get("name")
        return self.rv(e)

    # ------------------------------------------------------------------ statements
    def run(self, st):
        self.tick()
        k = st.get("kind")
        inner = [c for c in (st.get("inner") or []) if isinstance(c, dict)]
        if k == "CompoundStmt":
            for s in inner:
                if s:
                    self.run(s)
        elif k == "DeclStmt":
            for v in inner:
                if v.get("kind") != "VarDecl":
                    continue
                init = [c for c in (v.get("inner") or []) if isinstance(c, dict) and c]
                t = (v.get("type") or {}).get("qualType", "")
                am = _ARRAY_T.match(t)
                if am and init and init[-1].get("kind") == "InitListExpr":
                    cnt = int(am.group(2))
                    vals = [self.rv(x) for x in (init[-1].get("inner") or []) if isinstance(x, dict) and x and x.get("kind") != "ImplicitValueInitExpr"]
                    self.env[v["name"]] = self.new_buffer(cnt, (vals + [0] * cnt)[:cnt])       # missing elements are zero-initialised
                elif am and not init:
                    self.env[v["name"]] = self.new_buffer(int(am.group(2)))
                elif init:
                    self.env[v["name"]] = self.rv(init[-1])
                elif "Point2" in t:
                    self.env[v["name"]] = Dense(2, 1, vector=True)
                elif "Point3" in t:
                    self.env[v["name"]] = Dense(3, 1, vector=True)
                else:
                    self.env[v["name"]] = 0
        elif k == "ForStmt":
            raw = st.get("inner") or []
            init, cond, inc, body = raw[0], raw[2], raw[3], raw[4]
            if init:
                self.run(init)
            while True:
                self.tick()
                if cond and not self.rv(cond):
                    break
                try:
                    if body:
                        self.run(body)
                except _Brk:
                    break
                except _Cont:
                    pass
                if inc:
                    self.rv(inc)
        elif k == "WhileStmt":
            cond, body = inner[-2], inner[-1]
            while self.rv(cond):
                self.tick()
                try:
                    self.run(body)
                except _Brk:
                    break
                except _Cont:
                    pass
        elif k == "IfStmt":
            if self.rv(inner[0]):
                self.run(inner[1])
            elif len(inner) > 2:
                self.run(inner[2])
        elif k == "SwitchStmt":
            cond = self.rv(inner[-2])
            body = inner[-1]
            flat: List = []                                # (label or None, statement) in order; nested `case a: case b: stmt` unfolded

            def unfold(st_):
                if st_.get("kind") in ("CaseStmt", "DefaultStmt"):
                    sub = [c for c in (st_.get("inner") or []) if isinstance(c, dict) and c]
                    lab = "default" if st_.get("kind") == "DefaultStmt" else self.case_label(sub[0])
                    flat.append((lab, None))
                    unfold(sub[-1])
                else:
                    flat.append((None, st_))
            for st_ in [c for c in (body.get("inner") or []) if isinstance(c, dict) and c]:
                unfold(st_)
            start = next((i_ for i_, (lab, _) in enumerate(flat) if lab is not None and lab != "default" and lab == cond), None)
            if start is None:
                start = next((i_ for i_, (lab, _) in enumerate(flat) if lab == "default"), None)
            if start is not None:
                try:
                    for lab, st_ in flat[start:]:
                        if st_ is not None:
                            self.run(st_)
                except _Brk:
                    pass
        elif k == "ReturnStmt":
            raise _Ret(self.rv(inner[0]) if inner and inner[0] else None)
        elif k == "BreakStmt":
            raise _Brk()
        elif k == "ContinueStmt":
            raise _Cont()
        elif k == "NullStmt":
            return
        else:
            self.rv(st)


def run_function(f: dict, args: Dict[str, object], budget: int = 20000, typed: bool = False, header=None):
    """Runs FunctionDecl f with the given values for its parameters; returns (result, machine).  typed: arithmetic conversions
    and byte-level stores are modelled (LP64, little-endian); header: calls of functions the header defines are followed."""
    m = Machine(budget)
    m.typed, m.header = typed, header
    params = [p for p in f.get("inner", []) if p.get("kind") == "ParmVarDecl"]
    for p in params:
        if p.get("name") not in args:
            raise CUnknown(f"no sample for parameter {p.get('name')}")
        m.env[p["name"]] = args[p["name"]]
    try:
        for st in statements(f):
            m.run(st)
    except _Ret as r:
        return r.v, m
    return None, m
