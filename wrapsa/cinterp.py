"""A small interpreter for the copy loops of matlab.h, working on clang's JSON AST (Engine X).

It executes a converter (wrap<Vector>, unwrap<Matrix>, ...) on *sample* arrays whose cells are symbols, so that the rule can
read off which cell ended up where.  Nothing of the header is compiled or run: the interpreter walks the AST with its own
model of the handful of MEX functions and of the vector / matrix stand-ins (size / rows / cols / operator()).  Anything it
does not know raises CUnknown and the rule falls back to the recogniser of loop shapes."""
from __future__ import annotations

from typing import Dict, List, Optional

from .clangx import callee, statements


class CUnknown(Exception):
    pass


class CError(Exception):
    """The interpreted function called error()."""


class _Ret(Exception):
    def __init__(self, v):
        self.v = v


class _Brk(Exception):
    pass


class _Cont(Exception):
    pass


class MxArray:
    def __init__(self, m: int, n: int, cells: Optional[List[object]] = None, cls: str = "mxDOUBLE_CLASS"):
        self.m, self.n, self.cls = m, n, cls
        self.data: List[object] = list(cells) if cells is not None else [0.0] * (m * n)
        self.oob: List[str] = []


class Ptr:
    def __init__(self, arr: MxArray, off: int = 0):
        self.arr, self.off = arr, off


class Dense:
    """gtsam::Vector / Matrix / Point stand-in: cells addressed by (i) or (i, j)."""

    def __init__(self, rows: int, cols: int = 1, cells: Optional[Dict] = None, vector: bool = False):
        self.rows, self.cols, self.vector = rows, cols, vector
        self.cells: Dict = dict(cells) if cells is not None else {}
        self.oob: List[str] = []


class Ref:
    """An lvalue: a local variable, an array cell, a dense cell."""

    def __init__(self, get, set_):
        self.get, self.set = get, set_


_TRANSPARENT = ("ImplicitCastExpr", "ParenExpr", "MaterializeTemporaryExpr", "ExprWithCleanups", "CXXBindTemporaryExpr", "CXXFunctionalCastExpr",
                "ConstantExpr", "CStyleCastExpr", "CXXStaticCastExpr", "CXXReinterpretCastExpr", "CXXConstCastExpr")


class Machine:
    def __init__(self, budget: int = 20000):
        self.env: Dict[str, object] = {}
        self.steps = 0
        self.budget = budget
        self.created: List[MxArray] = []

    # ------------------------------------------------------------------ values
    def tick(self):
        self.steps += 1
        if self.steps > self.budget:
            raise CUnknown("too many steps")

    def rv(self, n):
        v = self.ev(n)
        return v.get() if isinstance(v, Ref) else v

    def lv(self, n) -> Ref:
        v = self.ev(n)
        if not isinstance(v, Ref):
            raise CUnknown("assignment to something that is not an lvalue")
        return v

    def cell(self, p: Ptr, k: int) -> Ref:
        arr, idx = p.arr, p.off + k

        def get():
            if 0 <= idx < len(arr.data):
                return arr.data[idx]
            arr.oob.append(f"read of element {idx} of an array with {len(arr.data)} element(s)")
            return ("outside", idx)

        def set_(v):
            if 0 <= idx < len(arr.data):
                arr.data[idx] = v
            else:
                arr.oob.append(f"write to element {idx} of an array with {len(arr.data)} element(s)")
        return Ref(get, set_)

    def dense_cell(self, d: Dense, idx) -> Ref:
        key = tuple(idx) if len(idx) > 1 else (idx[0], 0)
        if len(idx) == 1 and not d.vector and d.cols != 1:
            # linear index into a matrix (column-major)
            key = (idx[0] % d.rows if d.rows else 0, idx[0] // d.rows if d.rows else 0)

        def inside():
            return 0 <= key[0] < d.rows and 0 <= key[1] < d.cols

        def get():
            if inside():
                return d.cells.get(key, 0.0)
            d.oob.append(f"read of element {key} of a {d.rows}x{d.cols} object")
            return ("outside", key)

        def set_(v):
            if inside():
                d.cells[key] = v
            else:
                d.oob.append(f"write to element {key} of a {d.rows}x{d.cols} object")
        return Ref(get, set_)

    # ------------------------------------------------------------------ expressions
    def ev(self, n):
        self.tick()
        k = n.get("kind")
        inner = [c for c in (n.get("inner") or []) if isinstance(c, dict) and c]
        if k in _TRANSPARENT:
            return self.ev(inner[-1]) if inner else None
        if k == "IntegerLiteral":
            return int(n.get("value"))
        if k == "FloatingLiteral":
            return float(n.get("value"))
        if k == "CXXBoolLiteralExpr":
            return bool(n.get("value"))
        if k in ("StringLiteral", "CXXNullPtrLiteralExpr", "GNUNullExpr"):
            return n.get("value")
        if k == "DeclRefExpr":
            nm = (n.get("referencedDecl") or {}).get("name")
            if nm in self.env:
                env = self.env
                return Ref(lambda: env[nm], lambda v: env.__setitem__(nm, v))
            if nm in ("mxREAL", "mxCOMPLEX") or (nm or "").endswith("_CLASS"):
                return nm
            raise CUnknown(f"name {nm}")
        if k == "UnaryOperator":
            op = n.get("opcode")
            if op in ("++", "--"):
                r = self.lv(inner[0])
                old = r.get()
                d = 1 if op == "++" else -1
                new = Ptr(old.arr, old.off + d) if isinstance(old, Ptr) else old + d
                r.set(new)
                return old if n.get("isPostfix") else new
            if op == "*":
                p = self.rv(inner[0])
                if not isinstance(p, Ptr):
                    raise CUnknown("dereference of something that is not a pointer into an array")
                return self.cell(p, 0)
            if op == "-":
                return -self.rv(inner[0])
            if op == "+":
                return self.rv(inner[0])
            if op == "!":
                return not self.rv(inner[0])
            if op == "&":
                v = self.ev(inner[0])
                raise CUnknown("address-of")
            raise CUnknown(f"unary {op}")
        if k == "ArraySubscriptExpr":
            p, i = self.rv(inner[0]), self.rv(inner[1])
            if isinstance(i, Ptr):
                p, i = i, p
            if not isinstance(p, Ptr) or not isinstance(i, int):
                raise CUnknown("subscript")
            return self.cell(p, i)
        if k in ("BinaryOperator", "CompoundAssignOperator"):
            op = n.get("opcode")
            if op == ",":
                self.rv(inner[0])
                return self.ev(inner[1])
            if op == "=":
                r = self.lv(inner[0])
                v = self.rv(inner[1])
                r.set(v)
                return r
            if op in ("+=", "-=", "*=", "/="):
                r = self.lv(inner[0])
                v = self._arith(op[0], r.get(), self.rv(inner[1]))
                r.set(v)
                return r
            if op == "&&":
                return bool(self.rv(inner[0])) and bool(self.rv(inner[1]))
            if op == "||":
                return bool(self.rv(inner[0])) or bool(self.rv(inner[1]))
            a, b = self.rv(inner[0]), self.rv(inner[1])
            if op in ("+", "-", "*", "/", "%"):
                return self._arith(op, a, b)
            if op in ("<", "<=", ">", ">=", "==", "!="):
                if isinstance(a, Ptr) and isinstance(b, Ptr):
                    a, b = a.off, b.off
                if isinstance(a, tuple) or isinstance(b, tuple):
                    raise CUnknown("comparison of array cells")
                try:
                    return {"<": a < b, "<=": a <= b, ">": a > b, ">=": a >= b, "==": a == b, "!=": a != b}[op]
                except TypeError:
                    raise CUnknown("comparison")
            raise CUnknown(f"binary {op}")
        if k == "ConditionalOperator":
            return self.ev(inner[1]) if self.rv(inner[0]) else self.ev(inner[2])
        if k == "CallExpr":
            return self.call(n, inner)
        if k == "CXXOperatorCallExpr":
            nm = callee(n)
            args = inner[1:]
            if nm in ("operator()", "operator[]"):
                obj = self.rv(args[0])
                idx = [self.rv(a) for a in args[1:]]
                if isinstance(obj, Dense) and all(isinstance(i, int) for i in idx) and 1 <= len(idx) <= 2:
                    return self.dense_cell(obj, idx)
            if nm == "operator=":
                r = self.lv(args[0])
                r.set(self.rv(args[1]))
                return r
            raise CUnknown(f"operator call {nm}")
        if k == "CXXMemberCallExpr":
            me = inner[0]
            nm = me.get("name")
            obj = self.rv((me.get("inner") or [{}])[0])
            if isinstance(obj, Dense):
                if nm == "size":
                    return obj.rows * obj.cols
                if nm == "rows":
                    return obj.rows
                if nm == "cols":
                    return obj.cols
                if nm in ("x", "y", "z") and not inner[1:]:
                    return self.dense_cell(obj, [{"x": 0, "y": 1, "z": 2}[nm]]).get()
            raise CUnknown(f"member call {nm}")
        if k == "CXXConstructExpr":
            args = [self.rv(a) for a in inner]
            t = (n.get("type") or {}).get("qualType", "")
            if len(args) == 1 and isinstance(args[0], Dense):
                return args[0]                               # copy / move of a local into the return value
            if all(isinstance(a, int) for a in args):
                if "Matrix" in t and len(args) == 2:
                    return Dense(args[0], args[1])
                if "Vector" in t and len(args) == 1:
                    return Dense(args[0], 1, vector=True)
                if "Point2" in t and len(args) == 0:
                    return Dense(2, 1, vector=True)
                if "Point3" in t and len(args) == 0:
                    return Dense(3, 1, vector=True)
            if ("Point2" in t or "Point3" in t) and len(args) in (2, 3):
                d = Dense(len(args), 1, vector=True)
                for i, a in enumerate(args):
                    d.cells[(i, 0)] = a
                return d
            raise CUnknown(f"construction of {t}")
        if k == "MemberExpr":
            raise CUnknown("member access")
        raise CUnknown(f"expression {k}")

    @staticmethod
    def _arith(op, a, b):
        if isinstance(a, Ptr) and isinstance(b, int) and op in "+-":
            return Ptr(a.arr, a.off + (b if op == "+" else -b))
        if isinstance(b, Ptr) and isinstance(a, int) and op == "+":
            return Ptr(b.arr, b.off + a)
        if isinstance(a, Ptr) and isinstance(b, Ptr) and op == "-":
            return a.off - b.off
        if isinstance(a, (int, float)) and isinstance(b, (int, float)):
            if op == "+":
                return a + b
            if op == "-":
                return a - b
            if op == "*":
                return a * b
            if op == "/":
                if b == 0:
                    raise CUnknown("division by zero")
                return a // b if isinstance(a, int) and isinstance(b, int) else a / b
            if op == "%":
                if b == 0:
                    raise CUnknown("division by zero")
                return a % b
        raise CUnknown("arithmetic on array cells")

    def call(self, n, inner):
        nm = callee(n)
        args = inner[1:]
        if nm in ("error", "mexErrMsgTxt", "mexErrMsgIdAndTxt"):
            raise CError(nm)
        if nm in ("mxGetM", "mxGetN", "mxGetNumberOfElements", "mxGetData", "mxGetPr", "mxIsDouble", "mxIsChar", "mxIsComplex", "mxGetClassID", "mxIsEmpty"):
            a = self.rv(args[0])
            if not isinstance(a, MxArray):
                raise CUnknown(f"{nm} of something that is not a sample array")
            return {"mxGetM": a.m, "mxGetN": a.n, "mxGetNumberOfElements": a.m * a.n, "mxGetData": Ptr(a), "mxGetPr": Ptr(a),
                    "mxIsDouble": a.cls == "mxDOUBLE_CLASS", "mxIsChar": a.cls == "mxCHAR_CLASS", "mxIsComplex": False, "mxGetClassID": a.cls,
                    "mxIsEmpty": a.m * a.n == 0}[nm]
        if nm in ("max", "min") and len(args) == 2:
            a, b = self.rv(args[0]), self.rv(args[1])
            if isinstance(a, (int, float)) and isinstance(b, (int, float)):
                return max(a, b) if nm == "max" else min(a, b)
            raise CUnknown(f"{nm} of array cells")
        if nm in ("mxCreateDoubleMatrix", "mxCreateNumericMatrix"):
            m, k_ = self.rv(args[0]), self.rv(args[1])
            if not (isinstance(m, int) and isinstance(k_, int)) or m < 0 or k_ < 0:
                raise CUnknown("array created with sizes the interpreter cannot follow")
            a = MxArray(m, k_)
            self.created.append(a)
            return a
        raise CUnknown(f"call of {nm}")

    # ------------------------------------------------------------------ statements
    def run(self, st):
        self.tick()
        k = st.get("kind")
        inner = [c for c in (st.get("inner") or []) if isinstance(c, dict)]
        if k == "CompoundStmt":
            for s in inner:
                if s:
                    self.run(s)
        elif k == "DeclStmt":
            for v in inner:
                if v.get("kind") != "VarDecl":
                    continue
                init = [c for c in (v.get("inner") or []) if isinstance(c, dict) and c]
                t = (v.get("type") or {}).get("qualType", "")
                if init:
                    self.env[v["name"]] = self.rv(init[-1])
                elif "Point2" in t:
                    self.env[v["name"]] = Dense(2, 1, vector=True)
                elif "Point3" in t:
                    self.env[v["name"]] = Dense(3, 1, vector=True)
                else:
                    self.env[v["name"]] = 0
        elif k == "ForStmt":
            raw = st.get("inner") or []
            init, cond, inc, body = raw[0], raw[2], raw[3], raw[4]
            if init:
                self.run(init)
            while True:
                self.tick()
                if cond and not self.rv(cond):
                    break
                try:
                    if body:
                        self.run(body)
                except _Brk:
                    break
                except _Cont:
                    pass
                if inc:
                    self.rv(inc)
        elif k == "WhileStmt":
            cond, body = inner[-2], inner[-1]
            while self.rv(cond):
                self.tick()
                try:
                    self.run(body)
                except _Brk:
                    break
                except _Cont:
                    pass
        elif k == "IfStmt":
            if self.rv(inner[0]):
                self.run(inner[1])
            elif len(inner) > 2:
                self.run(inner[2])
        elif k == "ReturnStmt":
            raise _Ret(self.rv(inner[0]) if inner and inner[0] else None)
        elif k == "BreakStmt":
            raise _Brk()
        elif k == "ContinueStmt":
            raise _Cont()
        elif k == "NullStmt":
            return
        else:
            self.rv(st)


def run_function(f: dict, args: Dict[str, object], budget: int = 20000):
    """Runs FunctionDecl f with the given values for its parameters; returns (result, machine)."""
    m = Machine(budget)
    params = [p for p in f.get("inner", []) if p.get("kind") == "ParmVarDecl"]
    for p in params:
        if p.get("name") not in args:
            raise CUnknown(f"no sample for parameter {p.get('name')}")
        m.env[p["name"]] = args[p["name"]]
    try:
        for st in statements(f):
            m.run(st)
    except _Ret as r:
        return r.v, m
    return None, m
