"""Rules on matlab.h through the clang AST (C18 K1-K7, C11 H5)."""
from __future__ import annotations

from typing import Dict, List, Optional, Set, Tuple

from .clangx import (HeaderAST, _body, call_args, callee, calls, canon_type, line_of, ref_name, statements,
                     strip, walk, inline_helpers)
from .core import AnalysisError, Report

ELEM_SIZE = {"mxUINT64_CLASS": 8, "mxINT64_CLASS": 8, "mxDOUBLE_CLASS": 8, "mxUINT32_CLASS": 4,
             "mxINT32_CLASS": 4, "mxSINGLE_CLASS": 4, "mxINT16_CLASS": 2, "mxUINT16_CLASS": 2,
             "mxCHAR_CLASS": 2, "mxINT8_CLASS": 1, "mxUINT8_CLASS": 1, "mxLOGICAL_CLASS": 1}
SIZEOF_LP64 = {"char": 1, "unsigned char": 1, "signed char": 1, "bool": 1, "short": 2, "unsigned short": 2,
               "int": 4, "unsigned int": 4, "long": 8, "unsigned long": 8, "long long": 8,
               "unsigned long long": 8, "float": 4, "double": 8, "void *": 8}
SCALARS = {"bool", "char", "unsigned char", "int", "unsigned long", "unsigned int", "double", "long",
           "short", "unsigned short", "float", "long long", "unsigned long long", "signed char"}
VECTOR_KINDS = {"gtsam::Vector", "gtsam::Point2", "gtsam::Point3"}
MATRIX_KINDS = {"gtsam::Matrix"}


def header(ctx) -> HeaderAST:
    return ctx._get("header", lambda: HeaderAST(ctx.tree.root))


def hloc(n) -> str:
    return f"matlab.h:{line_of(n)}"


def rule_tables_agree(ctx, rep: Report, rid="K1"):
    h = header(ctx)
    ctx.tree.src("matlab.h")
    w, u = h.specialisations("wrap"), _unwrap_specs(h)
    for t in sorted(set(w) | set(u)):
        rep.add(rid, f"type:{t}:has both wrap<> and unwrap<>", t in w and t in u,
                f"{t}: wrap specialisation {'present' if t in w else 'MISSING'}, unwrap specialisation "
                f"{'present' if t in u else 'MISSING'}: the missing direction falls into the primary "
                f"template, which raises a run-time error instead of converting",
                hloc(w.get(t) or u.get(t)))
    if len(set(w) | set(u)) < 11:
        raise AnalysisError(f"{rep.prop}/{rid}: {len(w)} wrap / {len(u)} unwrap specialisations, 11 expected")
    rep.units["wrap_specialisations"] = sorted(w)
    rep.units["unwrap_specialisations"] = sorted(u)


def _stmt_index_with_call(stmts, names) -> Optional[int]:
    for i, st in enumerate(stmts):
        for c in calls(st):
            if callee(c) in names:
                return i
    return None


def rule_scalar_read(ctx, rep: Report, rid="K2"):
    h = header(ctx)
    u = _unwrap_specs(h)
    n = 0
    for t, f in sorted(u.items()):
        if t not in SCALARS:
            continue
        n += 1
        stmts = statements(f)
        param = next((c.get("name") for c in f.get("inner", []) if c["kind"] == "ParmVarDecl"), None)
        i_chk = None
        for i, st in enumerate(stmts):
            for c in calls(st, "checkScalar"):
                a = call_args(c)
                if a and ref_name(a[0]) == param:
                    i_chk = i if i_chk is None else i_chk
        i_get = _stmt_index_with_call(stmts, {"myGetScalar", "mxGetScalar", "mxGetData", "mxGetPr"})
        rep.add(rid, f"unwrap<{t}>:checkScalar on the argument before the value is read",
                i_chk is not None and (i_get is None or i_chk < i_get),
                f"unwrap<{t}> must reject a non-scalar array before reading it; checkScalar at statement "
                f"{i_chk}, first read at statement {i_get}", hloc(f))
        gets = calls(f, "myGetScalar")
        rt = [canon_type(c.get("type", {})) for c in gets]
        rep.add(rid, f"unwrap<{t}>:reads through myGetScalar<{t}>", rt == [t],
                f"unwrap<{t}> converts with myGetScalar<{rt}>: the value is narrowed/re-interpreted through "
                f"another type before it is returned", hloc(f))
    if n < 6:
        raise AnalysisError(f"{rep.prop}/{rid}: {n} scalar unwrap specialisations, 6 expected")


def _creation_class(f, var_or_expr) -> Optional[str]:
    """Class id constant used to create the array held by a local variable / array element."""
    target = _expr_key(var_or_expr)
    for n in walk(f):
        init = None
        if n.get("kind") == "VarDecl" and n.get("name") == target and n.get("inner"):
            init = strip(n["inner"][0])
        elif n.get("kind") == "BinaryOperator" and n.get("opcode") == "=" and _expr_key(n["inner"][0]) == target:
            init = strip(n["inner"][1])
        if init is None or callee(init) is None:
            continue
        cname = callee(init)
        args = call_args(init)
        if cname == "scalar" and args:
            return ref_name(args[0])
        if cname in ("mxCreateNumericMatrix", "mxCreateNumericArray") and len(args) >= 3:
            return ref_name(args[2])
        if cname in ("mxCreateDoubleMatrix", "mxCreateDoubleScalar"):
            return "mxDOUBLE_CLASS"
    return None


def _expr_key(n) -> str:
    n = strip(n)
    if n.get("kind") == "DeclRefExpr":
        return (n.get("referencedDecl") or {}).get("name", "?")
    if n.get("kind") == "ArraySubscriptExpr":
        a, b = n["inner"]
        b = strip(b)
        return f"{_expr_key(a)}[{b.get('value', '?')}]"
    return "?"


def _raw_stores(f):
    """(assignment, cast node, mxGetData argument) for `*cast(mxGetData(x)) = v`."""
    for n in walk(f):
        if n.get("kind") == "BinaryOperator" and n.get("opcode") == "=":
            lhs = strip(n["inner"][0])
            if lhs.get("kind") == "UnaryOperator" and lhs.get("opcode") == "*":
                c = strip(lhs["inner"][0])
                if c.get("kind") in ("CStyleCastExpr", "CXXReinterpretCastExpr", "CXXStaticCastExpr"):
                    inner = strip(c["inner"][0])
                    if callee(inner) in ("mxGetData", "mxGetPr"):
                        yield n, c, call_args(inner)[0]


TYPEDEFS = {"size_t": "unsigned long", "std::size_t": "unsigned long", "std::uint64_t": "uint64",
            "uint64_t": "uint64", "std::int64_t": "int64", "int64_t": "int64", "int32_T": "int",
            "mwSize": "unsigned long", "mwIndex": "unsigned long"}
SIZEOF_ILP32 = dict(SIZEOF_LP64, **{"long": 4, "unsigned long": 4, "void *": 4})
for _t in (SIZEOF_LP64, SIZEOF_ILP32):
    _t.update({"uint64": 8, "int64": 8})


def _pointee(c) -> str:
    t = canon_type(c.get("type", {}))
    t = t[:-1].strip() if t.endswith("*") else t
    return TYPEDEFS.get(t, t)


_CASTS = ("ImplicitCastExpr", "CStyleCastExpr", "CXXStaticCastExpr", "CXXFunctionalCastExpr", "CXXReinterpretCastExpr")
_FLOATS = {"float", "double", "long double"}


def _conversions(e, f=None, depth: int = 4) -> Tuple[Optional[str], List[Tuple[str, str]]]:
    """(name of the variable read, [(cast kind, type converted to), innermost first]) for an expression that is a variable under
    casts and parentheses; (None, ..) when it is anything else."""
    chain: List[Tuple[str, str]] = []
    n = e
    while isinstance(n, dict) and n.get("inner") and n.get("kind") in _CASTS + ("ParenExpr", "MaterializeTemporaryExpr", "ExprWithCleanups", "ConstantExpr"):
        if n.get("kind") in _CASTS and n.get("castKind") in ("IntegralCast", "IntegralToFloating", "FloatingToIntegral", "FloatingCast",
                                                             "IntegralToBoolean", "FloatingToBoolean"):
            t = canon_type(n.get("type", {})).replace("const ", "").strip()
            chain.append((n["castKind"], TYPEDEFS.get(t, t)))
        n = n["inner"][-1]
    nm = (n.get("referencedDecl") or {}).get("name") if isinstance(n, dict) and n.get("kind") == "DeclRefExpr" else None
    if nm is not None and f is not None and depth > 0 and (n.get("referencedDecl") or {}).get("kind") == "VarDecl":
        # a local that is initialised once and not written again: the value comes from its initialiser
        decls = [v for v in walk(f) if v.get("kind") == "VarDecl" and v.get("name") == nm and v.get("inner")]
        written = any(b.get("kind") in ("BinaryOperator", "CompoundAssignOperator") and b.get("opcode", "").endswith("=") and b.get("opcode") not in ("==", "!=", "<=", ">=")
                      and ref_name(b["inner"][0]) == nm for b in walk(f))
        if len(decls) == 1 and not written:
            inner_nm, inner_chain = _conversions(decls[0]["inner"][-1], f, depth - 1)
            if inner_nm is not None:
                return inner_nm, inner_chain + list(reversed(chain))
    return nm, list(reversed(chain))


def _lossy(t: str, chain, pointee: str, sizeof) -> Optional[str]:
    """A step on the way from a value of type t into storage typed `pointee` that cannot hold every value of t."""
    src = TYPEDEFS.get(t, t)
    w = sizeof.get(src)
    if w is None:
        return None
    for kind, dst in chain + [("store", pointee)]:
        dw = sizeof.get(dst)
        if dw is None:
            continue
        if kind.endswith("ToBoolean") and src != "bool":
            return f"converted to bool"
        if (dst in _FLOATS) != (src in _FLOATS):
            if src in _FLOATS or w >= 8 or dw < 8:
                return f"converted from {src} to {dst}"
        elif dw < w:
            return f"narrowed from {src} ({w} bytes) to {dst} ({dw} bytes)"
    return None


def rule_scalar_write(ctx, rep: Report, rid="K3", sizeof=SIZEOF_LP64, tag="LP64", h=None):
    """wrap<T> for a scalar T creates a 1x1 array and stores the value through a cast of its data pointer - directly or in a
    helper defined in the header (expanded in place).  The value reaches the store unchanged: no conversion on the way - an
    implicit one at a helper's parameter, a cast, the type the data pointer is cast to - is to a type that cannot hold every T;
    and the bytes written fit the element of the array that was created."""
    h = h or header(ctx)
    w = h.specialisations("wrap")
    n = 0
    for t, f0 in sorted(w.items()):
        f = inline_helpers(h, f0)
        stores = list(_raw_stores(f))
        for asg, cast, arr in stores:
            n += 1
            pt = _pointee(cast)
            cls = _creation_class(f, arr)
            key = f"wrap<{t}>:{tag}"
            src, chain = _conversions(asg["inner"][1], f)
            lossy = _lossy(t, chain, pt, sizeof)
            float_cls = cls == "mxDOUBLE_CLASS" or cls == "mxSINGLE_CLASS"
            kind_ok = (pt in _FLOATS) == float_cls if cls is not None else False
            rep.add(rid, f"{key}:the value reaches the store without loss", src is not None and lossy is None and kind_ok,
                    (f"wrap<{t}>: the value is {lossy} before it is written: values of {t} outside that type come back to MATLAB as other numbers"
                     if lossy else f"wrap<{t}> stores `{src}` through ({pt}*) into an array of class {cls}: bytes of another kind of number are written"),
                    hloc(asg))
            es, sz = ELEM_SIZE.get(cls or ""), sizeof.get(pt)
            rep.add(rid, f"{key}:store fits the created array", es is not None and sz is not None and sz <= es,
                    f"wrap<{t}> writes sizeof({pt})={sz} bytes into a 1x1 array of class {cls} "
                    f"(element size {es}): out-of-bounds write / truncated value", hloc(asg))
    # every other raw store in the header (create_object ...)
    for name in ("create_object",):
        for f in h.functions_inlined(name):
            for asg, cast, arr in _raw_stores(f):
                n += 1
                pt = _pointee(cast)
                cls = _creation_class(f, arr)
                sz = sizeof.get(pt, sizeof.get("void *") if pt.endswith("*") else None)
                es = ELEM_SIZE.get(cls or "")
                rep.add(rid, f"{name}:{_expr_key(arr)}:{tag}:store fits the created array",
                        es is not None and sz is not None and sz <= es,
                        f"{name} writes a {pt} ({sz} bytes) into an array of class {cls} ({es} bytes)",
                        hloc(asg))
    # (seven on the pinned header; a converter may legitimately stop storing through a cast pointer - what it does instead is
    #  judged by the evaluated round trips, K16 - so the guard only asks that the rule still finds most of its sites)
    if n < 4 or (n < 7 and scalar_verdict(ctx) is None):
        raise AnalysisError(f"{rep.prop}/{rid}: {n} raw stores found, 7 expected")


ERROR_FAMILY = ("error", "mexErrMsgTxt", "mexErrMsgIdAndTxt")


def _error_guard_conditions(st) -> List[dict]:
    """Conditions of `if (c) error(..); else if (c2) error(..);` chains: every condition whose then-branch raises."""
    out = []
    while st is not None and st.get("kind") == "IfStmt":
        inner = st.get("inner", [])
        if len(inner) > 1 and any(callee(c) in ERROR_FAMILY for c in calls(inner[1])):
            out.append(inner[0])
        st = inner[2] if len(inner) > 2 else None
    return out


def _delegate(h, f, depth=2):
    """The function whose body does the work: f itself, or - when f only hands its arguments to a helper defined in the
    header (`return helper(array);`) - that helper."""
    while depth > 0:
        stmts = statements(f)
        if len(stmts) != 1 or stmts[0].get("kind") != "ReturnStmt":
            return f
        cs = calls(stmts[0])
        target = None
        for c in cs:
            nm = callee(c)
            if nm and nm not in ERROR_FAMILY and not nm.startswith("mx"):
                hs = h.functions(nm)
                if len(hs) == 1:
                    target = hs[0]
        if target is None or target is f:
            return f
        f = target
        depth -= 1
    return f


def _unwrap_specs(h) -> Dict[str, dict]:
    """unwrap<T> specialisations, each represented by the function that does its work (a shared helper is followed)."""
    return {t: _delegate(h, f) for t, f in h.specialisations("unwrap").items()}


def _if_calls_error(st) -> bool:
    if st.get("kind") != "IfStmt":
        return False
    body = st["inner"][1:] if len(st.get("inner", [])) > 1 else []
    return any(callee(c) in ("error", "mexErrMsgTxt", "mexErrMsgIdAndTxt") for b in body for c in calls(b))


def _var_inits(f) -> Dict[str, dict]:
    out = {}
    for n in walk(f):
        if n.get("kind") == "VarDecl" and n.get("inner"):
            out[n["name"]] = strip(n["inner"][-1])
    return out


def _source_of(f, expr) -> str:
    """What a size expression is: 'mxGetM', 'mxGetN', 'rows', 'cols', 'size', literal or '?'."""
    e = strip(expr)
    if callee(e):
        return callee(e)
    if e.get("kind") == "IntegerLiteral":
        return str(e.get("value"))
    nm = ref_name(e)
    if nm:
        init = _var_inits(f).get(nm)
        if init is not None:
            if callee(init):
                return callee(init)
            if init.get("kind") == "IntegerLiteral":
                return str(init.get("value"))
    return "?"


def rule_guard_before_data(ctx, rep: Report, rid="K4"):
    h = header(ctx)
    u = _unwrap_specs(h)
    n = 0
    for t, f in sorted(u.items()):
        if t not in VECTOR_KINDS | MATRIX_KINDS:
            continue
        n += 1
        stmts = statements(f)
        i_data = _stmt_index_with_call(stmts, {"mxGetData", "mxGetPr"})
        i_guard = None
        has_col_check = False
        for i, st in enumerate(stmts):
            if _if_calls_error(st) and any(callee(c) == "mxIsDouble" for c in calls(st["inner"][0])):
                i_guard = i
                for b in walk(st["inner"][0]):
                    if b.get("kind") == "BinaryOperator" and b.get("opcode") == "!=":
                        srcs = {_source_of(f, b["inner"][0]), _source_of(f, b["inner"][1])}
                        if "mxGetN" in srcs and "1" in srcs:
                            has_col_check = True
                break
        rep.add(rid, f"unwrap<{t}>:non-double input rejected before the data pointer is taken",
                i_guard is not None and i_data is not None and i_guard < i_data,
                f"mxIsDouble/error guard at statement {i_guard}, first mxGetData at statement {i_data}: a "
                f"non-numeric array would be read as doubles", hloc(f))
        # (what the guard accepts and rejects - double, one column - is decided row by row of its truth table by K10)
    if n < 4:
        raise AnalysisError(f"{rep.prop}/{rid}: {n} vector/matrix unwrap specialisations, 4 expected")


def _for_nest(f):
    """Outermost ForStmt chain of f: list of (var, bound expr, increment exprs, body)."""
    chain = []
    cur = next((st for st in statements(f) if st.get("kind") in ("ForStmt", "WhileStmt")), None)
    while cur is not None and cur.get("kind") in ("ForStmt", "WhileStmt"):
        inner = cur["inner"]
        if cur.get("kind") == "WhileStmt":
            # `while (i < bound) { ...; i++; }` read like the for loop it replaces
            cond = next((x for x in inner if isinstance(x, dict) and strip(x).get("kind") == "BinaryOperator"), inner[0])
            body = inner[-1]
            init, inc = {}, body
            var = ref_name(strip(cond)["inner"][0]) if strip(cond).get("inner") else None
        else:
            init, cond, inc, body = inner[0], inner[2], inner[3], inner[4]
            var = None
        for v in walk(init):
            if v.get("kind") == "VarDecl":
                var = v["name"]
        bound = None
        c = strip(cond)
        if c.get("kind") == "BinaryOperator" and c.get("opcode") == "<":
            if ref_name(c["inner"][0]) == var:
                bound = c["inner"][1]
        elif c.get("kind") == "BinaryOperator" and c.get("opcode") == ">":
            if ref_name(c["inner"][1]) == var:          # `bound > i` is `i < bound`
                bound = c["inner"][0]
        elif c.get("kind") == "BinaryOperator" and c.get("opcode") == "!=":
            # `i != bound` with i counting up from 0 by one stops at the same place
            if ref_name(c["inner"][0]) == var:
                bound = c["inner"][1]
            elif ref_name(c["inner"][1]) == var:
                bound = c["inner"][0]
        incs = [ref_name(x["inner"][0]) for x in walk(inc) if x.get("kind") == "UnaryOperator"
                and x.get("opcode") in ("++",)]
        chain.append({"var": var, "bound": bound, "incs": incs, "body": body, "node": cur})
        b = body
        if b.get("kind") == "CompoundStmt" and len(b.get("inner", [])) == 1:
            b = b["inner"][0]
        cur = b if b.get("kind") == "ForStmt" else None
    return chain


def _matrix_shape(f) -> Dict[str, object]:
    chain = _for_nest(f)
    d: Dict[str, object] = {"depth": len(chain)}
    if not chain:
        return d
    d["bounds"] = [_source_of(f, lv["bound"]) if lv["bound"] is not None else "?" for lv in chain]
    body = chain[-1]["body"]
    # element access operator()(a, b)
    idx = None
    for c in walk(body):
        if c.get("kind") == "CXXOperatorCallExpr" and callee(c) == "operator()":
            a = call_args(c)
            idx = [ref_name(x) for x in a[1:]]
    vars_ = [lv["var"] for lv in chain]
    d["index"] = [("outer" if x == vars_[0] and len(vars_) > 1 else "inner" if x == vars_[-1] else "?")
                  for x in (idx or [])]
    # data pointer advanced once per innermost iteration (in the increment or the body)
    adv = [x for x in chain[-1]["incs"] if x not in vars_]
    for c in walk(body):
        if c.get("kind") == "UnaryOperator" and c.get("opcode") == "++" and ref_name(c["inner"][0]) not in vars_:
            adv.append(ref_name(c["inner"][0]))
    indexed = any(c.get("kind") == "ArraySubscriptExpr" for c in walk(body))
    d["advance"] = "pointer++ per element" if len(adv) == 1 else ("indexed" if indexed and not adv else f"?{adv}")
    # direction
    asg = next((c for c in walk(body) if c.get("kind") == "BinaryOperator" and c.get("opcode") == "="), None)
    if asg is not None:
        lhs = strip(asg["inner"][0])
        d["direction"] = "to-array" if lhs.get("kind") in ("UnaryOperator", "ArraySubscriptExpr") else "from-array"
    return d


SHAPES = [(0, 0), (0, 3), (3, 0), (1, 1), (1, 4), (4, 1), (3, 2), (2, 3)]


def copy_loop_verdict(f, kind: str) -> Optional[List[str]]:
    """Runs a converter's copy loop (own interpreter over the clang AST, sample arrays whose cells are symbols) for a set of
    shapes including the empty ones and compares where every cell ended up with the column-major layout MATLAB uses.  kind is
    'wrap_matrix', 'unwrap_matrix', 'wrap_vector' or 'unwrap_vector'.  Returns the list of differences, or None when the function
    is written with constructs the interpreter does not know."""
    from .cinterp import CError, CUnknown, Dense, MxArray, run_function
    params = [p.get("name") for p in f.get("inner", []) if p.get("kind") == "ParmVarDecl"]
    if len(params) != 1:
        return None
    diffs: List[str] = []
    shapes = SHAPES if kind.endswith("matrix") else [(0, 1), (1, 1), (4, 1)]
    try:
        for m, n in shapes:
            if kind.startswith("unwrap"):
                arr = MxArray(m, n, [("d", k) for k in range(m * n)])
                try:
                    res, mach = run_function(f, {params[0]: arr})
                except CError:
                    diffs.append(f"{m}x{n}: reported as an error")
                    continue
                if not isinstance(res, Dense):
                    return None
                want_shape = (m, n) if kind.endswith("matrix") else (m, 1)
                if (res.rows, res.cols) != want_shape:
                    diffs.append(f"{m}x{n} array gives a {res.rows}x{res.cols} object")
                    continue
                wrong = [(i, j) for j in range(n) for i in range(m) if res.cells.get((i, j)) != ("d", j * m + i)]
                if wrong:
                    i, j = wrong[0]
                    diffs.append(f"{m}x{n}: element ({i},{j}) receives {res.cells.get((i, j))} instead of array element {j * m + i}"
                                 + (f" ({len(wrong)} of {m * n} misplaced)" if len(wrong) > 1 else ""))
                if arr.oob or res.oob:
                    diffs.append(f"{m}x{n}: {(arr.oob + res.oob)[0]}")
            else:
                obj = Dense(m, n, {(i, j): ("a", i, j) for i in range(m) for j in range(n)}, vector=not kind.endswith("matrix"))
                try:
                    res, mach = run_function(f, {params[0]: obj})
                except CError:
                    diffs.append(f"{m}x{n}: reported as an error")
                    continue
                if not isinstance(res, MxArray):
                    return None
                if (res.m, res.n) != (m, n):
                    diffs.append(f"a {m}x{n} object gives a {res.m}x{res.n} array")
                    continue
                wrong = [(i, j) for j in range(n) for i in range(m) if res.data[j * m + i] != ("a", i, j)]
                if wrong:
                    i, j = wrong[0]
                    diffs.append(f"{m}x{n}: array element {j * m + i} receives {res.data[j * m + i]} instead of element ({i},{j})"
                                 + (f" ({len(wrong)} of {m * n} misplaced)" if len(wrong) > 1 else ""))
                if res.oob or obj.oob:
                    diffs.append(f"{m}x{n}: {(res.oob + obj.oob)[0]}")
    except CUnknown:
        return None
    return diffs


SCALAR_SHAPES = [[1, 1], [0, 0], [1, 0], [0, 1], [1, 2], [2, 1], [2, 2], [1, 1, 3], [1, 1, 0], [1, 1, 1, 2], [2, 1, 1], [1, 3, 1]]


def scalar_guard_verdict(h, f) -> Optional[List[str]]:
    """checkScalar run (own interpreter) on arrays of every small shape, the empty ones and the N-d ones whose first two extents
    are 1 included, for several classes: it must raise for everything but 1x1.  None when the interpreter cannot follow it."""
    from .cinterp import CError, CUnknown, MxArray, run_function
    f = inline_helpers(h, f)
    params = [p.get("name") for p in f.get("inner", []) if p.get("kind") == "ParmVarDecl"]
    if not params:
        return None
    diffs: List[str] = []
    try:
        for dims in SCALAR_SHAPES:
            for cls in ("mxDOUBLE_CLASS", "mxLOGICAL_CLASS", "mxUINT64_CLASS"):
                cnt = 1
                for d in dims:
                    cnt *= d
                arr = MxArray(0, 0, [float(k) for k in range(cnt)], cls=cls, dims=dims)
                args = {params[0]: arr}
                for p in params[1:]:
                    args[p] = "name"
                shape = "x".join(map(str, dims))
                try:
                    run_function(f, args)
                    if dims != [1, 1]:
                        diffs.append(f"a {shape} array passes as a scalar")
                except CError:
                    if dims == [1, 1]:
                        diffs.append("a 1x1 array is refused")
                if arr.oob:
                    diffs.append(f"{shape}: {arr.oob[0]}")
    except (CUnknown, IndexError, KeyError, TypeError):
        return None
    return sorted(set(diffs), key=diffs.index)


def _string_spec(h, fam: str):
    sp = h.specialisations(fam)
    f = sp.get("std::string") or sp.get("string") or next((f_ for t, f_ in sp.items() if "basic_string" in t or t.endswith("string")), None)
    return _delegate(h, f) if f is not None and fam == "unwrap" else f


def _boundary_lengths(f) -> List[int]:
    """Lengths worth trying: the small ones and the neighbours of every constant the function mentions (a literal, the extent of
    a local array) - a fixed-size buffer has its edge there."""
    import re as _re
    consts = set()
    for x in walk(f):
        if x.get("kind") == "IntegerLiteral":
            try:
                consts.add(int(x.get("value")))
            except (TypeError, ValueError):
                pass
        t = (x.get("type") or {}).get("qualType", "") if x.get("kind") == "VarDecl" else ""
        m = _re.search(r"\[(\d+)\]$", t)
        if m:
            consts.add(int(m.group(1)))
    out = {0, 1, 3}
    for c in consts:
        if 2 < c <= 4096:
            out.update({c - 2, c - 1, c, c + 1})
    return sorted(out)


def string_converter_verdict(h) -> Optional[Dict[str, List[str]]]:
    """unwrap<string> and wrap<string> run (own interpreter over the clang AST; mxArrayToString, mxGetString with its documented
    cut at length-1, mxCreateString, local buffers whose bytes start uninitialised) on character arrays of the boundary lengths,
    a column and a matrix of characters, and on arrays that are not characters.  Returns {'unwrap': [...], 'wrap': [...]}: the
    differences found (empty = none), or None where the function uses constructs the interpreter does not know."""
    from .cinterp import CError, CUnknown, MxArray, run_function
    out: Dict[str, List[str]] = {}
    fu, fw = _string_spec(h, "unwrap"), _string_spec(h, "wrap")

    def text(n):
        return [chr(97 + k % 26) for k in range(n)]
    if fu is not None:
        fu = inline_helpers(h, fu)
        params = [p.get("name") for p in fu.get("inner", []) if p.get("kind") == "ParmVarDecl"]
        diffs: List[str] = []
        try:
            shapes = [(1, n) for n in _boundary_lengths(fu)] + [(0, 0), (3, 1), (2, 2)]
            for m, n in shapes:
                arr = MxArray(m, n, text(m * n), cls="mxCHAR_CLASS")
                try:
                    res, mach = run_function(fu, {params[0]: arr}, budget=200000)
                except CError:
                    diffs.append(f"a {m}x{n} character array is reported as an error")
                    continue
                if not isinstance(res, str):
                    raise CUnknown("result is not a string")
                if res != "".join(arr.data):
                    diffs.append(f"a {m}x{n} character array ({m * n} characters) comes back with {len(res)} character(s)"
                                 if len(res) != m * n else f"a {m}x{n} character array comes back with other characters")
                faults = mach.faults + [o for b in mach.buffers for o in b.oob] + arr.oob
                if faults:
                    diffs.append(f"a {m}x{n} character array: {faults[0]}")
            for arr, what in ((MxArray(1, 1, [65.0]), "a 1x1 double"), (MxArray(1, 3, [72.0, 105.0, 33.0]), "a 1x3 double"),
                              (MxArray(0, 0, []), "an empty double ([])"), (MxArray(1, 2, [1, 0], cls="mxLOGICAL_CLASS"), "a logical array")):
                try:
                    res, mach = run_function(fu, {params[0]: arr}, budget=200000)
                    diffs.append(f"{what} is accepted as a string ({res!r})")
                except CError:
                    pass
            out["unwrap"] = diffs
        except (CUnknown, IndexError, KeyError, TypeError):
            pass
    if fw is not None:
        fw = inline_helpers(h, fw)
        params = [p.get("name") for p in fw.get("inner", []) if p.get("kind") == "ParmVarDecl"]
        diffs = []
        try:
            for n in _boundary_lengths(fw):
                txt = "".join(text(n))
                try:
                    res, mach = run_function(fw, {params[0]: txt}, budget=200000)
                except CError:
                    diffs.append(f"a string of {n} character(s) is reported as an error")
                    continue
                if not isinstance(res, MxArray):
                    raise CUnknown("result is not an array")
                if res.cls != "mxCHAR_CLASS" or "".join(map(str, res.data)) != txt:
                    diffs.append(f"a string of {n} character(s) becomes a {res.m}x{res.n} {res.cls} array with other contents")
                faults = mach.faults + [o for b in mach.buffers for o in b.oob] + res.oob
                if faults:
                    diffs.append(f"a string of {n} character(s): {faults[0]}")
            out["wrap"] = diffs
        except (CUnknown, IndexError, KeyError, TypeError):
            pass
    return out or None


def string_verdict(ctx):
    return ctx._get("string_verdict", lambda: string_converter_verdict(header(ctx)))


def rule_strings_by_evaluation(ctx, rep: Report, rid="K15"):
    """Strings round-trip unchanged and only character arrays are accepted - decided by running the two string converters on
    sample arrays (see string_converter_verdict)."""
    v = string_verdict(ctx) or {}
    h = header(ctx)
    for fam in ("unwrap", "wrap"):
        f = _string_spec(h, fam)
        if f is None:
            raise AnalysisError(f"{fam}<string> not found")
        if fam not in v:
            rep.add(rid, f"{fam}<string>:by evaluation", True, "not decided: written with constructs the interpreter does not know; the structural "
                    "rules (K8, K10) apply", hloc(f), nontrivial=False)
            continue
        d = v[fam]
        label = ("unwrap<string>:every character array gives its characters, whatever its length; anything else is an error" if fam == "unwrap"
                 else "wrap<string>:a string becomes the character array with the same characters")
        rep.add(rid, label, not d, f"run on sample values: {d[:3]}: a string argument or result (a key name, a file path) arrives cut, padded with "
                "whatever the buffer held, or a numeric array is read as text", hloc(f))
    rep.units["string_converters_evaluated"] = sorted(v)


SCALAR_BOUNDS = [0, 1, 2, 5, 65, 127, 128, 200, 255, 256, 32767, 32768, 65535, 2 ** 31 - 1, 2 ** 31, 2 ** 32 - 1, 2 ** 32 + 7, 2 ** 53, 2 ** 53 + 1,
                 2 ** 63 - 1, 2 ** 63, 2 ** 64 - 1, -1, -2, -128, -129, -32768, -2 ** 31, -2 ** 31 - 1, -2 ** 53 - 1, -2 ** 63]


def _fits(v, spec) -> bool:
    from .cinterp import c_convert
    if spec[1] == "f":
        return isinstance(v, float) or float(v) == v and int(float(v)) == v
    if isinstance(v, float):
        import math as _math
        return _math.isfinite(v) and v == int(v) and c_convert(int(v), spec) == int(v)
    return c_convert(v, spec) == (bool(v) if spec[1] == "b" else v) and (spec[1] != "b" or v in (0, 1))


def scalar_converter_verdict(h) -> Optional[Dict[str, List[str]]]:
    """Every scalar wrap<T> / unwrap<T> pair run (own interpreter, LP64 little-endian byte model: arrays are byte strings, a store
    through `(X*)mxGetData(..)` writes sizeof(X) bytes, mxCreateNumeric* zero-initialises, mxGetScalar converts the first element
    to double, C++ arithmetic conversions wrap / truncate as the standard says) on the boundary values of T:
    'roundtrip' - unwrap<T>(wrap<T>(v)) is v and nothing outside the created array is touched;
    'read'      - a MATLAB array of any numeric or logical class holding a value T can represent arrives as that value
                  (2^53+1 in an int64 array is not read through a double).
    Returns the differences per part, or None where the interpreter cannot follow."""
    from .cinterp import MX_CLASSES, CError, CUnknown, MxArray, c_convert, c_type, run_function
    w, u = h.specialisations("wrap"), h.specialisations("unwrap")
    out: Dict[str, List[str]] = {"roundtrip": [], "read": []}
    n_rt = n_rd = 0
    try:
        for t in sorted(set(w) & set(u)):
            spec = c_type(t)
            if spec is None:
                continue
            fw, fu = w[t], u[t]
            pw = [p.get("name") for p in fw.get("inner", []) if p.get("kind") == "ParmVarDecl"]
            pu = [p.get("name") for p in fu.get("inner", []) if p.get("kind") == "ParmVarDecl"]
            if len(pw) != 1 or len(pu) != 1:
                return None
            values = [v for v in SCALAR_BOUNDS + [2.5, -0.75, 1e300, float("inf"), float("-inf"), -0.0, 5e-324] if _fits(v, spec)]
            for v in values:
                v = c_convert(v, spec)
                arr, m1 = run_function(fw, {pw[0]: v}, typed=True, header=h)
                if not isinstance(arr, MxArray) or arr.raw is None:
                    raise CUnknown("wrap does not give a numeric array")
                n_rt += 1
                if arr.dims != [1, 1]:
                    out["roundtrip"].append(f"wrap<{t}>({v}) gives a {'x'.join(map(str, arr.dims))} array")
                    continue
                if arr.oob:
                    out["roundtrip"].append(f"wrap<{t}>({v}): {arr.oob[0]} ({arr.cls})")
                    continue
                try:
                    back, m2 = run_function(fu, {pu[0]: arr}, typed=True, header=h)
                except CError:
                    out["roundtrip"].append(f"unwrap<{t}> refuses what wrap<{t}>({v}) made")
                    continue
                import math as _math
                if back != v or (isinstance(v, float) and _math.copysign(1.0, back) != _math.copysign(1.0, v)) or isinstance(back, bool) != isinstance(v, bool) and spec[1] == "b":
                    out["roundtrip"].append(f"{t} {v} comes back as {back} (through a {arr.cls} array holding bytes {bytes(arr.raw).hex()})")
            for cls, cspec in sorted(MX_CLASSES.items()):
                if cls in ("mxCHAR_CLASS", "mxSINGLE_CLASS"):
                    continue
                for v in SCALAR_BOUNDS + [2.5]:
                    if not (_fits(v, cspec) and _fits(v, spec)):
                        continue
                    stored = float(v) if cspec[1] == "f" else (bool(v) if cspec[1] == "b" else v)
                    want = c_convert(v, spec)
                    arr = MxArray.numeric(cls, [stored], dims=[1, 1])
                    n_rd += 1
                    try:
                        back, m2 = run_function(fu, {pu[0]: arr}, typed=True, header=h)
                    except CError:
                        out["read"].append(f"unwrap<{t}> refuses a 1x1 {cls} array holding {v}")
                        continue
                    if arr.oob:
                        out["read"].append(f"unwrap<{t}> of a {cls} array: {arr.oob[0]}")
                    elif back != want:
                        out["read"].append(f"unwrap<{t}> of a {cls} array holding {v} gives {back}")
    except (CUnknown, KeyError, IndexError, TypeError, ValueError, OverflowError) as e:
        return None
    out["_counts"] = [str(n_rt), str(n_rd)]
    return out


def scalar_verdict(ctx):
    return ctx._get("scalar_verdict", lambda: scalar_converter_verdict(header(ctx)))


def rule_scalars_by_evaluation(ctx, rep: Report, rid="K16"):
    """Scalars round-trip and MATLAB values arrive exactly - decided by running the scalar converters on boundary values in a
    byte-level model of the arrays (see scalar_converter_verdict).  The model is LP64 and little-endian; that is an assumption
    about the platform, stated in the evidence, not a fact about the header."""
    h = header(ctx)
    v = scalar_verdict(ctx)
    loc = hloc(next(iter(h.specialisations("unwrap").values())))
    if v is None:
        rep.add(rid, "scalar converters:by evaluation", True, "not decided: written with constructs the interpreter does not know; K2, K3, K14 decide by structure",
                loc, nontrivial=False)
        rep.units["scalar_round_trips_evaluated"] = 0
        return
    n_rt, n_rd = (int(x) for x in v["_counts"])
    rep.units["scalar_round_trips_evaluated"] = n_rt
    rep.units["scalar_reads_evaluated"] = n_rd
    rep.add(rid, "scalar converters:unwrap<T>(wrap<T>(v)) is v for the boundary values of every scalar type", not v["roundtrip"],
            f"{v['roundtrip'][:4]}: the value a C++ function returns is not the value MATLAB hands to the next call (a store wider than the array it was "
            f"created with writes outside it)", loc)
    rep.add(rid, "scalar converters:a MATLAB scalar of any numeric or logical class arrives as its value", not v["read"],
            f"{v['read'][:4]}: the routine is called with another number than the caller passed (a 64-bit key read through a double loses its low bits)", loc)
    if n_rt < 40 or n_rd < 150:
        raise AnalysisError(f"{rep.prop}/{rid}: only {n_rt} round trips / {n_rd} reads evaluated")


def rule_loop_shapes(ctx, rep: Report, rid="K5"):
    h = header(ctx)
    wm = h.functions("wrap_Matrix")
    um = _unwrap_specs(h).get("gtsam::Matrix")
    if not wm or um is None:
        raise AnalysisError("wrap_Matrix / unwrap<Matrix> not found")
    # decided by running the copy loops on sample arrays wherever the interpreter can follow them; by loop shape otherwise
    evaluated = 0
    decided = set()
    todo = [("wrap_Matrix", wm[0], "wrap_matrix"), ("unwrap<Matrix>", um, "unwrap_matrix")]
    wv0 = h.functions("wrap_Vector")
    if wv0:
        todo.append(("wrap_Vector", wv0[0], "wrap_vector"))
    for t_ in sorted(VECTOR_KINDS):
        f_ = _unwrap_specs(h).get(t_)
        if f_ is not None and t_ == "gtsam::Vector":
            todo.append((f"unwrap<{t_}>", f_, "unwrap_vector"))
    for label, f_, kind in todo:
        v = copy_loop_verdict(inline_helpers(h, f_), kind)
        if v is None:
            continue
        evaluated += 1
        decided.add(label)
        rep.add(rid, f"{label}:every element lands at its column-major place, for every shape (empty ones included)", not v,
                f"run on sample arrays: {v[:3]}: MATLAB arrays are column-major (element (i,j) of an m x n array is number j*m+i); any other traversal "
                f"transposes or scrambles the values, and a wrong length reads or writes outside the array", hloc(f_))
    rep.units["copy_loops_evaluated"] = evaluated
    ws, us = _matrix_shape(wm[0]), _matrix_shape(um)
    if "wrap_Matrix" in decided:
        ws = {"bounds": ["cols", "rows"], "index": ["inner", "outer"], "advance": "pointer++ per element", "direction": "to-array"}
    if "unwrap<Matrix>" in decided:
        us = {"bounds": ["mxGetN", "mxGetM"], "index": ["inner", "outer"], "advance": "pointer++ per element", "direction": "from-array"}
    rep.add(rid, "wrap_Matrix:column-major nest (outer cols, inner rows, element (i,j))",
            ws.get("bounds") == ["cols", "rows"] and ws.get("index") == ["inner", "outer"]
            and ws.get("advance") == "pointer++ per element" and ws.get("direction") == "to-array",
            f"found {ws}: MATLAB arrays are column-major; any other traversal transposes or scrambles",
            hloc(wm[0]))
    rep.add(rid, "unwrap<Matrix>:column-major nest (outer mxGetN, inner mxGetM, element (i,j))",
            us.get("bounds") == ["mxGetN", "mxGetM"] and us.get("index") == ["inner", "outer"]
            and us.get("advance") == "pointer++ per element" and us.get("direction") == "from-array",
            f"found {us}", hloc(um))
    # creation shapes
    for c in (calls(wm[0], "mxCreateDoubleMatrix") if "wrap_Matrix" not in decided else []):
        a = call_args(c)
        srcs = [_source_of(wm[0], a[0]), _source_of(wm[0], a[1])]
        rep.add(rid, "wrap_Matrix:array created as rows x cols", srcs == ["rows", "cols"],
                f"mxCreateDoubleMatrix({srcs[0]}, {srcs[1]})", hloc(c))
    ctor = [c for c in walk(um) if c.get("kind") == "CXXConstructExpr" and "Matrix" in canon_type(c.get("type", {}))
            and len(c.get("inner", [])) == 2]
    for c in (ctor if "unwrap<Matrix>" not in decided else []):
        srcs = [_source_of(um, x) for x in c["inner"]]
        rep.add(rid, "unwrap<Matrix>:matrix created as mxGetM x mxGetN", srcs == ["mxGetM", "mxGetN"],
                f"Matrix({srcs[0]}, {srcs[1]})", hloc(c))
    if not ctor and "unwrap<Matrix>" not in decided:
        raise AnalysisError("unwrap<Matrix>: matrix construction not found")
    # vectors
    wv = h.functions("wrap_Vector")
    if not wv:
        raise AnalysisError("wrap_Vector not found")
    s = _matrix_shape(wv[0])
    rep.add(rid, "wrap_Vector:one element per row, m x 1 array",
            "wrap_Vector" in decided or (s.get("bounds") == ["size"] and s.get("direction") == "to-array"), f"found {s}", hloc(wv[0]))
    for c in (calls(wv[0], "mxCreateDoubleMatrix") if "wrap_Vector" not in decided else []):
        a = call_args(c)
        srcs = [_source_of(wv[0], a[0]), _source_of(wv[0], a[1])]
        rep.add(rid, "wrap_Vector:array created as size x 1", srcs == ["size", "1"],
                f"mxCreateDoubleMatrix({srcs[0]}, {srcs[1]})", hloc(c))
    for t in sorted(VECTOR_KINDS):
        f = _unwrap_specs(h).get(t)
        if f is None:
            continue
        s = _matrix_shape(f)
        rep.add(rid, f"unwrap<{t}>:reads mxGetM elements in order",
                f"unwrap<{t}>" in decided or (s.get("bounds") == ["mxGetM"] and s.get("direction") == "from-array"
                                              and s.get("advance") in ("pointer++ per element", "indexed")), f"found {s}", hloc(f))
    # wrap<T> for vector/matrix types delegate
    w = h.specialisations("wrap")
    for t in sorted(VECTOR_KINDS | MATRIX_KINDS):
        f = w.get(t)
        if f is None:
            continue
        want = "wrap_Matrix" if t in MATRIX_KINDS else "wrap_Vector"
        rep.add(rid, f"wrap<{t}>:delegates to {want}", bool(calls(f, want)),
                f"wrap<{t}> does not call {want}", hloc(f))


def rule_error_terminal(ctx, rep: Report, rid="K6"):
    h = header(ctx)
    for name in ("error",):
        fs = h.functions(name)
        if not fs:
            raise AnalysisError(f"{name}() not found in matlab.h")
        ok = any(callee(c) in ("mexErrMsgIdAndTxt", "mexErrMsgTxt") for c in calls(fs[0]))
        rep.add(rid, f"{name}:raises a MATLAB error (does not return)", ok,
                f"{name}() no longer calls the mexErrMsg* family: conversions continue after a failed check",
                hloc(fs[0]))
    fs = h.functions("checkScalar")
    if not fs:
        raise AnalysisError("checkScalar() not found")
    f = fs[0]
    ok = False
    detail = ""
    for st in statements(f):
        if st.get("kind") == "IfStmt":
            cond = st["inner"][0]
            srcs = set()
            for b in walk(cond):
                if b.get("kind") == "BinaryOperator" and b.get("opcode") == "!=":
                    srcs |= {(_source_of(f, b["inner"][0]), _source_of(f, b["inner"][1]))}
            want = {("mxGetM", "1"), ("mxGetN", "1")}
            top = strip(cond)
            is_or = top.get("kind") == "BinaryOperator" and top.get("opcode") == "||"
            raises = any(callee(c) in ("mexErrMsgIdAndTxt", "mexErrMsgTxt", "error") for b in st["inner"][1:] for c in calls(b))
            norm = {tuple(sorted(x)) for x in srcs}
            # equivalent normal forms: (M != 1 || N != 1)   |   numel != 1   |   !mxIsScalar(x)
            form_mn = norm == {tuple(sorted(x)) for x in want} and is_or
            form_numel = norm == {("1", "mxGetNumberOfElements")} and top.get("kind") == "BinaryOperator" and top.get("opcode") == "!="
            form_isscalar = top.get("kind") == "UnaryOperator" and top.get("opcode") == "!" and \
                callee(strip(top["inner"][0])) == "mxIsScalar"
            ok = (form_mn or form_numel or form_isscalar) and raises
            if not ok:
                # any other way of writing the same decision (a named predicate, `!(m == 1 && n == 1)`, ...) is judged by its truth table
                from .rules_header2 import guard_exact
                ok = guard_exact(f, {("eq", "mxGetM", 1): True, ("eq", "mxGetN", 1): True}) is True
            detail = (f"condition {sorted(srcs)} ({top.get('opcode')}) is none of `M != 1 || N != 1`, `numel != 1`, "
                      f"`!mxIsScalar`; raises={raises}: some non-1x1 array (e.g. an empty one) passes as a scalar")
    ev = scalar_guard_verdict(h, f)
    if ev is not None:
        ok, detail = not ev, f"run on sample arrays: {ev[:4]}: a scalar converter then reads the first element of an array that is not a scalar " \
                              f"(or reads past the end of an empty one), or refuses a scalar"
    rep.add(rid, "checkScalar:rejects anything but 1x1", ok, detail or "no if-statement found", hloc(f))
    rep.units["checkScalar_by_evaluation"] = ev is not None
    fs = h.functions("checkArguments")
    if fs:
        f = fs[0]
        ok = False
        for st in walk(f):
            if st.get("kind") == "IfStmt":
                cond = strip(st["inner"][0])
                if cond.get("kind") == "BinaryOperator" and cond.get("opcode") == "!=":
                    names = {ref_name(cond["inner"][0]), ref_name(cond["inner"][1])}
                    ok = names == {"nargin", "expected"} and any(callee(c) in ERROR_FAMILY for b in st["inner"][1:] for c in calls(b))
        if not ok:
            from .rules_header2 import guard_exact
            ok = guard_exact(f, {("eq", "nargin", "expected"): True}) is True
        rep.add(rid, "checkArguments:argument count mismatch is an error", ok,
                "checkArguments must raise when nargin != expected", hloc(f))


def rule_handle_protocol(ctx, rep: Report, rid="K7"):
    h = header(ctx)
    # writer
    co = h.functions_inlined("create_object")
    ws = h.functions("wrap_shared_ptr")
    if not co or not ws:
        raise AnalysisError("create_object / wrap_shared_ptr not found")
    stored = [(_pointee(c), _expr_key(arr)) for _, c, arr in _raw_stores(co[0])]
    rep.add(rid, "create_object:stores the pointer value in the handle array", ("void *", "input[1]") in stored,
            f"raw stores found: {stored}", hloc(co[0]))
    heap = [v for v in walk(ws[0]) if v.get("kind") == "VarDecl" and v.get("inner")
            and any(x.get("kind") == "CXXNewExpr" for x in walk(v))]
    ok = bool(heap) and all(canon_type(v.get("type", {})).replace(" ", "") == "std::shared_ptr<Class>*" for v in heap)
    passed = False
    for c in calls(ws[0], "create_object"):
        a = call_args(c)
        if len(a) > 1 and heap and ref_name(a[1]) == heap[0]["name"]:
            passed = True
    rep.add(rid, "wrap_shared_ptr:hands a heap-allocated std::shared_ptr<Class>* to create_object", ok and passed,
            f"heap variables {[(v['name'], canon_type(v.get('type', {}))) for v in heap]}, passed={passed}",
            hloc(ws[0]))
    # readers
    n = 0
    for name in ("unwrap_shared_ptr", "unwrap_ptr"):
        for f in h.functions(name):
            n += 1
            casts = []
            for c in walk(f):
                if c.get("kind") in ("CXXReinterpretCastExpr", "CStyleCastExpr", "CXXStaticCastExpr"):
                    inner = strip(c["inner"][0])
                    if callee(inner) == "mxGetData":
                        casts.append(c)
            tys = [canon_type(c.get("type", {})).replace(" ", "") for c in casts]
            ok = bool(casts) and all(t == "std::shared_ptr<Class>**" for t in tys)
            deref = False
            for u in walk(f):
                if u.get("kind") == "UnaryOperator" and u.get("opcode") == "*" and strip(u["inner"][0]) in casts:
                    deref = True
            rep.add(rid, f"{name}:reads the handle as std::shared_ptr<Class>** and dereferences it", ok and deref,
                    f"{name} reinterprets mxGetData(handle) as {tys or 'nothing'}"
                    f"{'' if deref else ' without dereferencing'}: the handle array holds a pointer to a "
                    f"heap std::shared_ptr<Class> (written by create_object); any other view yields a pointer "
                    f"into the MATLAB array itself", hloc(f))
    if n < 2:
        raise AnalysisError(f"{rep.prop}/{rid}: handle readers not found")
    for f in h.functions("unwrap_shared_ptr"):
        stmts = statements(f)
        i_data = _stmt_index_with_call(stmts, {"mxGetData"})
        tested: Set[str] = set()
        i_guard = None
        for i, st in enumerate(stmts[: i_data if i_data is not None else 0]):
            for cond in _error_guard_conditions(st):
                tested |= {callee(c) for c in calls(cond)}
                i_guard = i
        rep.add(rid, "unwrap_shared_ptr:validates class id and shape before the cast",
                i_guard is not None and i_data is not None and tested >= {"mxGetClassID", "mxGetM", "mxGetN"},
                f"error guards before the cast test {sorted(x for x in tested if x)}, last guard at statement {i_guard}, mxGetData at {i_data}", hloc(f))
        rt = canon_type(f.get("type", {})).split("(")[0].strip()
        # ... and what is returned is the stored shared pointer itself (`*spp`, copied by the return): a shared_ptr built around
        # the raw address (`spp->get()`, aliasing constructor with an empty owner, ...) designates the object without owning it, so
        # a second handle made from it does not keep the object alive
        rets = [r for r in walk(f) if r.get("kind") == "ReturnStmt" and r.get("inner")]
        shares = bool(rets)
        shown = []
        for r in rets:
            e = strip(r["inner"][0])
            while e.get("kind") in ("CXXConstructExpr", "CXXFunctionalCastExpr", "CXXBindTemporaryExpr", "MaterializeTemporaryExpr") and len(e.get("inner", [])) == 1:
                e = strip(e["inner"][0])
            raw = any(x.get("kind") in ("MemberExpr", "CXXDependentScopeMemberExpr") and x.get("name", x.get("member")) == "get" for x in walk(r))
            deref_stored = e.get("kind") == "UnaryOperator" and e.get("opcode") == "*" and strip(e["inner"][0]).get("kind") == "DeclRefExpr"
            shown.append(f"{e.get('kind')}{' with .get()' if raw else ''}")
            shares = shares and deref_stored and not raw
        rep.add(rid, "unwrap_shared_ptr:returns a copy of the shared pointer (keeps the object alive)",
                rt.replace(" ", "") == "std::shared_ptr<Class>" and shares, f"return type {rt}; returned expression(s) {shown}: only a copy of the stored "
                f"std::shared_ptr shares ownership", hloc(f))
    # create_object cleans up what it created
    f = co[0]
    destroyed = {_expr_key(call_args(c)[0]) for c in calls(f, "mxDestroyArray")}
    created = set()
    for n_ in walk(f):
        if n_.get("kind") == "BinaryOperator" and n_.get("opcode") == "=" and callee(strip(n_["inner"][1])) and \
                str(callee(strip(n_["inner"][1]))).startswith("mxCreate"):
            created.add(_expr_key(n_["inner"][0]))
    rep.add(rid, "create_object:destroys every array it created", created <= destroyed and len(created) >= 2,
            f"created {sorted(created)}, destroyed {sorted(destroyed)}", hloc(f))

    def under_flag(kind, flag="isVirtual"):
        for st in walk(f):
            if st.get("kind") == "IfStmt" and ref_name(st["inner"][0]) == flag:
                then = st["inner"][1]
                if any(x.get("kind") == kind for x in walk(then)):
                    return True
        return False
    news = [x for x in walk(f) if x.get("kind") == "CXXNewExpr"]
    dels = [x for x in walk(f) if x.get("kind") == "CXXDeleteExpr"]
    rep.add(rid, "create_object:new[] and delete[] paired under the same condition",
            len(news) == len(dels) and (not news or (under_flag("CXXNewExpr") and under_flag("CXXDeleteExpr")
                                                    and all(d.get("isArray") for d in dels)
                                                    and all(x.get("isArray") for x in news))),
            f"{len(news)} new, {len(dels)} delete", hloc(f))


def rule_returns_depend_on_argument(ctx, rep: Report, rid="K8"):
    """Every `return` of a value-converting unwrap<T> / wrap<T> specialisation hands back something computed from
    the function's argument.  A path that returns a default-constructed or constant value instead (an 'empty
    input' short-cut) loses the value - for a matrix, its shape."""
    h = header(ctx)
    n = 0
    for fam in ("unwrap", "wrap"):
        for t, f in sorted(h.specialisations(fam).items()):
            if fam == "unwrap":
                f = _delegate(h, f)            # the specialisation may hand its argument to a shared helper that does the work
            params = [p.get("name") for p in f.get("inner", []) if p.get("kind") == "ParmVarDecl" and p.get("name")]
            if not params or _body(f) is None:
                continue
            # def-use closure: local -> names its initialiser / assignments / element stores read
            deps: Dict[str, Set[str]] = {}
            for x in walk(f):
                if x.get("kind") == "VarDecl" and x.get("name"):
                    deps.setdefault(x["name"], set()).update(r for y in walk(x) for r in [ref_name(y)] if r)
                if x.get("kind") in ("BinaryOperator", "CompoundAssignOperator") and x.get("opcode", "").endswith("=") and \
                        x.get("opcode") not in ("==", "!=", "<=", ">=") and len(x.get("inner", [])) == 2:
                    lhs_names = [r for y in walk(x["inner"][0]) for r in [ref_name(y)] if r]
                    rhs_names = {r for y in walk(x["inner"][1]) for r in [ref_name(y)] if r}
                    for ln in lhs_names:
                        deps.setdefault(ln, set()).update(rhs_names)
                if x.get("kind") == "CXXOperatorCallExpr" and len(x.get("inner", [])) == 3 and callee(x) in ("operator=",):
                    lhs_names = [r for y in walk(x["inner"][1]) for r in [ref_name(y)] if r and not r.startswith("operator")]
                    rhs_names = {r for y in walk(x["inner"][2]) for r in [ref_name(y)] if r}
                    for ln in lhs_names:
                        deps.setdefault(ln, set()).update(rhs_names)
                # a call that fills one of its arguments from the others (memcpy(dst, src, n), std::copy ...)
                if x.get("kind") == "CallExpr" and callee(x) == "mxGetString":
                    a = call_args(x)                  # mxGetString(array, buffer, length) fills its second argument from the first
                    if len(a) >= 2:
                        for ln in [r for y in walk(a[1]) for r in [ref_name(y)] if r]:
                            deps.setdefault(ln, set()).update(r for z in (a[0], *a[2:]) for y in walk(z) for r in [ref_name(y)] if r)
                if x.get("kind") == "CallExpr" and callee(x) in ("memcpy", "memmove", "copy", "strcpy", "strncpy"):
                    a = call_args(x)
                    if len(a) >= 2:
                        dst = [r for y in walk(a[0]) for r in [ref_name(y)] if r]
                        src = {r for z in a[1:] for y in walk(z) for r in [ref_name(y)] if r}
                        for ln in dst:
                            deps.setdefault(ln, set()).update(src)

            def reaches(names: Set[str]) -> bool:
                seen, todo = set(), list(names)
                while todo:
                    v = todo.pop()
                    if v in params:
                        return True
                    if v in seen:
                        continue
                    seen.add(v)
                    todo += list(deps.get(v, ()))
                return False
            for k, r in enumerate([x for x in walk(f) if x.get("kind") == "ReturnStmt"]):
                if not r.get("inner"):
                    continue
                n += 1
                used = {nm for y in walk(r) for nm in [ref_name(y)] if nm}
                ok = reaches(used)
                rep.add(rid, f"{fam}<{t}>:return #{k + 1}: value computed from the argument", ok,
                        f"this return hands back a value that does not depend on `{params[0]}` (names used: {sorted(used) or 'none'}): the "
                        f"converted value is replaced by a default / constant on this path (e.g. an empty m x 0 matrix comes back 0 x 0)",
                        hloc(r))
    if n < 12:
        raise AnalysisError(f"{rep.prop}/{rid}: only {n} return statements found in the wrap/unwrap specialisations")
