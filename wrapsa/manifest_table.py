"""Single source for MANIFEST.json (tools/gen_manifest.py)."""
TB = ("trusted: CPython ast, documented pyparsing 3.1 combinator semantics; assumes no monkey-patching "
      "beyond the one the repo does and no computed getattr/setattr")
ENGINES = [
    {"name": "G", "path": "wrapsa/grammar.py", "serves_properties": ["C01", "C03", "C07", "C12", "C19"],
     "kind_free_text": "abstract interpretation of module/class-level statements -> pyparsing grammar IR; "
                       "nullable/FIRST/recursion/capture-scope/layout analyses"},
    {"name": "F", "path": "wrapsa/prog.py", "serves_properties": ["C01", "C02", "C03", "C06", "C07", "C08",
                                                                   "C10", "C13", "C14", "C15", "C16", "C17"],
     "kind_free_text": "program index, call binding, guards, def-use, freshness, effects"},
    {"name": "E", "path": "wrapsa/emit.py", "serves_properties": ["C03", "C04", "C06", "C09", "C10", "C11",
                                                                   "C15", "C16", "C17"],
     "kind_free_text": "constant folding of str.format / f-string / concatenation / textwrap templates into literal parts and slots with bound expressions"},
    {"name": "I", "path": "wrapsa/rules_ids.py", "serves_properties": ["C05"],
     "kind_free_text": "id-allocation site inventory (affine offsets, slot positions) + bounded abstract execution of the replay loops"},
    {"name": "X", "path": "wrapsa/clangx.py", "serves_properties": ["C11", "C18"],
     "kind_free_text": "clang -fsyntax-only JSON AST of matlab.h against stub headers"},
]
CHECKS = {
    "C01": {"engine": "G+F", "design_ref": "DESIGN.md section 3 C01",
            "technique": "static analysis: capture-scope def/use between grammar results names and parse actions, call binding against constructor signatures/annotations, marker-to-spelling chain, shape of named results (value / list / wrapped node) against the constructor's use; Class.Members.__init__ and collect_namespaces run by the analyser's interpreter on sample member sequences / parent chains (filed once per kind, source order, outermost-first paths); constructors of parser nodes checked for lossy rebinding / completed flags; Namespace.__init__ and CustomType.__init__ run on sample blocks / qualified names incl. every a::b literal the constructor mentions (G19)",
            "text": "Decides that nothing the grammar matches is dropped, invented or routed to another field "
                    "between the grammar and the node objects (every information point of every parse action's "
                    "capture scope is read; every read name is defined; constructor binding by arity, keyword "
                    "and annotated node type), that both scopes accept the same declaration kinds, that member "
                    "kinds are routed by type, and that qualifier markers reach the right flag and C++ spelling. "
                    "Does not decide which alternative the longest-match Or picks for ambiguous inputs.",
            "note": TB},
    "C02": {"engine": "F", "design_ref": "DESIGN.md section 3 C02",
            "technique": "static analysis: interprocedural provenance ('instantiated-ness') of every type-carrying constructor parameter, recursion/worklist shape, substring-rewrite lint, qualifier-forwarding binding; the nested template-argument walk run by the analyser's interpreter on sample argument trees; provenance element-wise through tuple results; instantiate_type itself run on sample type expressions and spelled by the tool's own to_cpp; may-analysis that no primitive works on already substituted types; S14 with a second binding whose concrete type is spelled like another parameter, templated types as the parser builds them, three-component scoped uses",
            "text": "Decides that every type-carrying position of every node rebuilt by the instantiator is sent "
                    "through the substitution primitives, that the substitution reaches every nesting depth, "
                    "matches whole identifiers only, forwards qualifiers/names/defaults, and treats `This` by "
                    "equality. Does not decide value-level equality of the resulting spellings for all inputs.",
            "note": TB + "; type-carrying fields taken from the parser classes' own annotations"},
    "C03": {"engine": "E+F+G", "design_ref": "DESIGN.md section 3 C03",
            "technique": "static analysis: node-kind / member-kind exhaustiveness between grammar, instantiator and emitter dispatch; dominance of filter/ignore/escape steps over the emissions they protect; guards of wrap_namespace read as constraints on the depth relative to the top namespace (abstract evaluation for d=-2..2); _partial_match and _gen_module_var evaluated by the analyser's interpreter on sample namespace paths; folded-template slot provenance; wrap_operators run on sample operators; keyword table evaluated against the keyword module; the whole class block produced by running wrap_instantiated_class on a sample class (members); class blocks run for every class spelling / member name the generator special-cases, read off its own comparisons (A13); wrap_namespace run on a tree with re-opened namespaces (A4)",
            "text": "Decides that every node and member kind the instantiated tree can contain has an emitter, that "
                    "the top-namespace filter, the ignore test, the once-per-submodule declaration and the keyword "
                    "escape dominate the emissions they protect, and that namespace depth is computed relative to "
                    "the configured top namespace. Does not decide exactly-once per declaration for every input.",
            "note": TB + "; keyword.kwlist of CPython 3.12 is the reference list"},
    "C04": {"engine": "E", "design_ref": "DESIGN.md section 3 C04",
            "technique": "static analysis: constant-folded emission templates with slot provenance; abstract evaluation of the method/static partition; sibling projections of one argument list; scope qualifier of free functions evaluated on sample paths and top-module settings; read-only choice evaluated over all marker combinations; name-taint of the free-function emitter; class block by evaluation (forwarding); to_cpp of the instantiated callables on a templated instantiation; instantiate_type on templated types with their parameter types (B15); instantiate_parent_class run on classes whose namespace declares a class named like the base (B16)",
            "text": "Decides the shape of every generated lambda/registration for all inputs (one argument list in "
                    "declared order for parameters, call and py::arg; default on its own parameter; def/def_static, "
                    "receiver and self parameter agree per member kind; return iff non-void; readonly iff const; "
                    "same-entity slots; operator shapes). Behaviour of the compiled binding is not decided.",
            "note": TB + "; pybind11 trusted"},
    "C05": {"engine": "I", "design_ref": "DESIGN.md section 3 C05",
            "technique": "static analysis: inventory of id-allocation sites with affine offsets and template slot positions, single-writer/allocator shape, text-reaches-output on every path, bounded abstract execution of the two replay loops over symbolic map entries; role tuple of each allocation inside an overload loop tied to the loop's own element; hand-written gateway spellings compared with _wrapper_name(); the .m emitters and generate_collector_function run on sample declarations: ids passed = ids registered, each branch's id belongs to its overload, each routine checks / unwraps / calls for its overload; pointer-constructor text for virtual x base combinations; the .m file and the classdef line evaluated for names of every length around the wrapper's integer constants (I13); a repeated free-function declaration among the samples; mex_function run on the id map the evaluated .m emitters leave behind (I14)",
            "text": "Decides the whole numbering protocol by an inductive argument whose premises are checked: single "
                    "writer, allocator shape, every allocated id embedded once as first gateway argument, affine "
                    "offsets (incl. the virtual pair), the two replay loops produce one case per id routed to the "
                    "routine of the same map entry and define each called routine once, roles not confusable with "
                    "user names. Correctness of the routine bodies is C06/C11.",
            "note": TB + "; abstract execution models only the statement forms the loops use (else ANALYSIS-ERROR)"},
    "C06": {"engine": "E+F", "design_ref": "DESIGN.md section 3 C06",
            "technique": "static analysis: path enumeration of per-argument index counters, normal-form comparison of the two MATLAB type-check builders, role table (unwrap start / nargin adjustment / receiver / .m call shape), structural shape of default expansion, marshalling-table priority, enum-context provenance per role, whole-scope enum look-up, pair element selected by output position; both guard builders run on sample parameter lists and compared; routines of a sample run compared with their overloads; constructors (all-defaulted, defaulted tail, foreign enum) among the evaluated routines; _collector_return run on eight enum/class samples incl. same-named enums of class and namespace (M20); outputs assigned per return shape (M21) and isa class of namespaced parameter types (M22) read off the evaluated .m emitters; truth of program objects follows __len__/__bool__ in the interpreter; evaluated guards are pure conjunctions (M16); an exception raised by the evaluated generator on a legal sample is a finding (M18)",
            "text": "Decides that position indexes advance once per argument on every path, that the two MATLAB-side guard "
                    "builders agree, that per role the C++ unwrap offsets, the expected counts and the .m call shapes are "
                    "mutually consistent, that default expansion has the peel-from-the-tail / rebuild-from-backup shape, "
                    "that every arity gets an id, that return shapes are dispatched exhaustively and that one "
                    "marshalling table drives unwrap and call. One known finding (enum-typed free functions, D26) is "
                    "recorded. 'k+1 arities for all k' as arithmetic and MATLAB isa semantics are not decided.",
            "note": TB},
    "C07": {"engine": "G+F", "design_ref": "DESIGN.md section 3 C07",
            "technique": "static analysis: end-anchor and capture-completeness of the grammar, call-graph effect analysis (may-reject before first write on all paths), handler audit, validated-lookup returns, boundedness of free-text token classes, name-dispatch chains over open name sets reject what they do not list; repetition-shaped results traced into constructors (all values kept); progress analysis of every while loop (paths through the body that change nothing the condition reads); the validating constructors run on declarations that must be refused and their valid neighbours (V6); a handler may end the run as a failure (V4)",
            "text": "Decides: the parse root is end-anchored and is the only parse entry; every accepted token "
                    "reaches the tree; the parser terminates structurally (no left recursion / nullable "
                    "repetition); no handler on a path from the entry points swallows a parse/validation error; "
                    "in every entry point all rejection points precede the first write on all paths; the "
                    "validation sites still reject; the typedef lookup only returns what passed its rejections; no free-text "
                    "token can run over following declarations. Does not decide that every corrupted input lies outside the "
                    "language.",
            "note": TB + "; rejections are ParseBaseException/ValueError/AssertionError; asserts active (no -O)"},
    "C08": {"engine": "F", "design_ref": "DESIGN.md section 3 C08",
            "technique": "static analysis: shape of every itertools.product site, typedef-path binding resolved before any content replacement, pass-through loop structure, single naming helper, no shared resolution state, parent links stay truthy, Typename.instantiated_name evaluated by the analyser's interpreter on sample type trees; find_sub_namespace and instantiate_namespace run by the analyser's interpreter on sample trees (lazy generators with late binding, recorded constructors); sample namespace with bare-template / empty / hollow namespaces and a typedef in front of its template's namespace (N11); explicit template arguments of instantiated callables (N12)",
            "text": "Decides that instantiations are enumerated as the Cartesian product of the parsed lists in "
                    "declaration order at all three levels, that typedefs build exactly one instantiation with "
                    "the typedef's arguments and name, that everything else passes through once in order, and "
                    "that names/spellings come from one helper that capitalises position 0 only.",
            "note": TB + "; itertools.product ordering as documented"},
    "C09": {"engine": "E", "design_ref": "DESIGN.md section 3 C09",
            "technique": "static analysis: slot completeness and delimiter balance of every folded template (by induction over slot values), string-kind adjacency, re-use of C04/B1 and C02/S1-S2; emitters for free functions / methods / static methods run on sample declarations, emitted lambda checked (names passed are the lambda's own parameters); class block by evaluation (balanced, one statement); docstring literal round trip through a byte-level decoder of C++ narrow literals; wrap_namespace on re-opened namespaces (W6); placement of typedef'd instantiations behind nested namespaces (W18); instantiate_type run on the sample type expressions (W19 = S14; W5 defers to it)",
            "text": "Decides well-formedness conditions of the emitted C++ that are visible in the templates: no "
                    "missing/unused placeholder, balanced delimiters in every literal skeleton, no namespace prefix "
                    "in front of expression text, lambda/keyword arity, no unsubstituted parameter. 'Compiles against "
                    "any conforming library' needs a compiler and the library and is not decided.",
            "note": TB},
    "C10": {"engine": "E+F", "design_ref": "DESIGN.md section 3 C10",
            "technique": "static analysis: guard pairing of preamble fragments, enumerate-from-zero shape, package paths of all sibling sites evaluated by the analyser on sample namespace lists (depth 1 and 3), unconditional concatenation of classdef parts, single MEX-source entry, overload grouping by name, must-definition analysis of per-class scalar state; guards of the free-function file append in wrap_methods (name-independent, dead filters recognised); guards of the deserialize pair; registration-before-fill of namespace lists; the class file name by evaluation (T19); generate_preamble run on eight sample classes with and without serialization, the five texts read (T20); add_class and a user-defined __eq__ of the declaration classes run on colliding sample pairs (T21)",
            "text": "Decides that collector/clean-up/RTTI fragments are emitted under the right (paired) conditions for "
                    "every registered class, enumerators are numbered from 0 in declared order, all entity kinds "
                    "derive their +package path by one normal form, the classdef always contains its mandatory parts "
                    "and names its base, and exactly one MEX source entry exists. File contents are C05/C06/C11.",
            "note": TB},
    "C11": {"engine": "E+X", "design_ref": "DESIGN.md section 3 C11",
            "technique": "static analysis: per-routine ownership obligations on constant-folded, tokenised C++ routine templates (create=>register, destroy-once, unload hook, base handle, ownership form of returned handles) + memo-key completeness + clang AST handle protocol of matlab.h + id-role inventory (every id carries its role; holes only as the virtual up-cast slot) + pair element by position; clang AST conversion chains of wrap<T> (helpers expanded in place) checked for lossy steps; pointer-constructor text, guard builders and routines by evaluation; string converter forms; string converters run by the header interpreter on boundary lengths (H21); the preamble and the class registry by evaluation (H22, H23); isa class of namespaced parameter types (H24); no use of an array's data after mxDestroyArray / mxFree (H25); base-class handle decided by running the routines (H4)",
            "text": "Decides per-routine ownership obligations (each allocated handle registered and returned, destructor "
                    "erases then deletes once, unload hook before first registration, base handle handed over in the "
                    "right slot, handle protocol in matlab.h read as written). Call histories under MATLAB's lifetime "
                    "rules and exceptions between allocation and registration are not decided.",
            "note": TB + "; clang 14 + /verif/stubs as in C18"},
    "C12": {"engine": "G", "design_ref": "DESIGN.md section 3 C12",
            "technique": "static analysis: grammar reconstruction + layout classification of terminals/combinators; character-run terminals checked against comment openers; taint from read() to the parse: the text is only concatenated; the entry parse call's expression configured with parseWithTabs wherever the grammar copies text verbatim (L8)",
            "text": "Decides the necessary structural conditions for layout/comment independence of parsing: "
                    "comment skipper installed on the parse root and covering the whole grammar, no "
                    "layout-sensitive terminal or combinator outside the documented verbatim zones, single "
                    "anchored parse entry. Covers every grammar node, hence every input; does not re-prove "
                    "byte-identical generator output (follows from equal trees + C14).",
            "note": TB},
    "C13": {"engine": "F", "design_ref": "DESIGN.md section 3 C13",
            "technique": "static analysis: ownership along access paths (shallow vs deep copies, re-bound attributes, local helpers, accessors and constructors followed; reaching definitions, accumulator parameters, closures), key-only use of template parameter names, no shared module/class state; wrapper attributes filled per class may guard book-keeping only (closure of wrap_instantiated_class); ownership through accessors; instantiate_type purity by evaluation; order of combinations by evaluation with parameter names that sort against their declaration order; Template.TypenameAndInstantiations run on plain, templated and mixed lists, entry by entry (P14)",
            "text": "Decides the aliasing discipline that makes instantiations independent: every in-place "
                    "modification in the instantiator hits a freshly created value; lists handed to the re-parenting "
                    "Class constructor are rebuilt; parameter names are lookup keys only; no cross-run state in "
                    "parser or instantiator. Does not re-prove output equality under alpha-renaming as a value fact.",
            "note": TB + "; deepcopy yields an independent graph; instantiate_namespace's in/out parameter exempt by name"},
    "C14": {"engine": "F", "design_ref": "DESIGN.md section 3 C14",
            "technique": "static analysis: effect analysis over the call graph (nondeterminism sources, unordered collections, un-reset accumulators, provenance of write/read paths, whole-file writes, must-definition of per-item state, memo-key completeness); mutable default parameter values traced for in-place modification / escape; configuration attributes (computed by the constructor from its arguments) never re-bound or mutated by another method (R11); abspath-like calls exempt only where path flow shows the value merely names a file; Path-typed locals followed in the effect scan",
            "text": "Decides the effect discipline that makes generation a repeatable function: no "
                    "nondeterministic source or hash-ordered collection reachable, per-file state reset, every "
                    "written path derived from a caller-chosen output location (or <stem>+constant suffix), "
                    "reads confined to inputs/bundled template, one finished write per output. Does not decide "
                    "OS-level atomicity under concurrent writers of the same target.",
            "note": TB + "; insertion-ordered dict/list iteration; MatlabWrapper single-use (exempt from R3)"},
    "C15": {"engine": "F+E", "design_ref": "DESIGN.md section 3 C15",
            "technique": "static analysis: normal-form comparison of ignore keys across sibling sites, dominance of the ignore test over every per-class emission, None-result handling at every caller, package path of every entity kind evaluated on sample namespace lists; option plumbing of --ignore in both scripts",
            "text": "Decides that each generator computes one ignore key, that the ignore test dominates all artefacts of "
                    "the class (binding, enums; classdef, ids, collector, clean-up, RTTI) and that the 'ignored' result "
                    "is tested before use. Equivalence with deleting the declaration for all inputs is not re-proved.",
            "note": TB},
    "C16": {"engine": "F+E", "design_ref": "DESIGN.md section 3 C16",
            "technique": "static analysis: separator provenance of the parsed text, agreement of folded initialiser templates (declaration/definition/call/module variable), CLI option plumbing table with None-reachability, abstract interpretation of the namespace-option normalisation over spelling classes in both scripts, aliasing rule on entry-point parameters, must-pass-through (every normal exit of wrap / wrap_submodule preceded by the write of the generated text), agreement of the cmake command lines with the scripts' declared options and of expected with written file names; initialiser names computed by slice evaluation of wrap / wrap_file / wrap_submodule on sample file lists; the script's source list evaluated on the backward slice of main() for sample --src values, same-file renamings accepted only through path flow (Y3); configuration attributes fixed at construction (Y9)",
            "text": "Decides that file contents are separated before parsing, that the main file and submodules agree on "
                    "initialiser name, signature and module variable, that every CLI option reaches its API keyword "
                    "and a possibly-None option never reaches a membership test, and that both scripts normalise the "
                    "top namespace identically. Linking/importing the combined module is not decided.",
            "note": TB + "; argparse semantics as documented"},
    "C17": {"engine": "E+F", "design_ref": "DESIGN.md section 3 C17",
            "technique": "static analysis: confinement of the XML configuration to one template slot, Engler-style contradiction rule for Optional results with path facts, handler coverage, index bound as guard implication, path enumeration of the name filter, def-use reachability of looked-up elements, counter-key provenance, regex-AST analysis of the literal encoder; XPath of the index query parsed (steps and predicates); filter_member_defs run on sample member definitions (falsy sample elements); docstring literal round trip",
            "text": "Decides that XML configuration influences only the docstring slot (empty without XML), that "
                    "Optional XML results are never dereferenced without a dominating test, that unreadable/malformed "
                    "XML becomes an empty docstring, that the overload index is bounded and that class/method/argument "
                    "names select the documented member. Exact decoding of the literal for all Unicode is not decided.",
            "note": TB + "; ElementTree find()/text may be None"},
    "C18": {"engine": "X", "design_ref": "DESIGN.md section 3 C18",
            "technique": "static analysis: clang -fsyntax-only AST (JSON) of matlab.h against declaration-only stubs; writer/reader table agreement, guard-before-use ordering, typed/bounded raw stores, loop-nest shape and loop-header comparison, truth-table comparison of every error guard, argument checks of array-creating and MATLAB-calling functions; conversion chains from the wrapped value to the raw store (implicit and explicit casts, locals, helper parameters) checked for lossy steps; copy loops of wrap / unwrap for vectors and matrices run by an interpreter over the clang AST on sample arrays with symbolic cells; unwrap<string>/wrap<string> run by the header interpreter (local buffers with uninitialised bytes, mxGetString's cut and return code, mxArrayToString, std::string from pointer) on lengths next to every constant the function mentions, on char columns/matrices and non-char arrays (K15); checkScalar run on twelve shapes incl. N-d ones (K6); no use of an array's data after mxDestroyArray / mxFree (K17); numeric_limits, initialiser lists and char arrays in the byte model (K16)",
            "text": "Decides the structural conditions of loss-free conversion in matlab.h: wrap/unwrap tables "
                    "agree; scalar readers check shape first and read through their own type; raw stores are "
                    "typed and fit the created array (LP64, and ILP32 in the thorough tier); vector/matrix "
                    "readers guard before taking the data pointer; writer and reader traverse matrices in the "
                    "same column-major nest; errors are terminal; the handle protocol (shared_ptr<Class>* in a "
                    "uint64 array) is read as it is written. Numeric round-trip equality and lifetime over "
                    "call histories are not decided.",
            "note": "trusted: clang 14 parser/Sema; /verif/stubs declare the documented MEX C API and minimal gtsam types"},
    "C19": {"engine": "G", "design_ref": "DESIGN.md section 3 C19",
            "technique": "static analysis: memoisation-enabled lint over all modules + left-recursion/nullable-repetition/alternative-order analysis of the grammar IR, recursion fan-out of methods reachable from parse actions (call graph by name), no nested parse inside parse actions, regex ASTs (re._parser) checked for ambiguous nested repetition; call graph over methods, properties and constructors of the node classes: a function on a cycle enters it once per child (Z9) (functions reachable from parse actions only)",
            "text": "Decides the structural preconditions of polynomial parsing (memoisation on, unconditional, "
                    "never overridden; no left recursion; no nullable repetition). No time bound is claimed: "
                    "timing is a run-time quantity.",
            "note": TB},
}
PENDING = "checker not implemented yet in this revision (see DESIGN.md section 3 for the planned static rules)"
NOT_APPLICABLE = {}
