"""Single source for MANIFEST.json (tools/gen_manifest.py)."""
TB = ("trusted: CPython ast, documented pyparsing 3.1 combinator semantics; assumes no monkey-patching "
      "beyond the one the repo does and no computed getattr/setattr")
ENGINES = [
    {"name": "G", "path": "wrapsa/grammar.py", "serves_properties": ["C01", "C07", "C12", "C19"],
     "kind_free_text": "abstract interpretation of module/class-level statements -> pyparsing grammar IR; "
                       "nullable/FIRST/recursion/capture-scope/layout analyses"},
    {"name": "F", "path": "wrapsa/prog.py", "serves_properties": ["C01", "C02", "C07", "C08", "C13", "C14",
                                                                   "C15", "C16", "C17"],
     "kind_free_text": "program index, call binding, guards, def-use, freshness, effects"},
]
CHECKS = {
    "C01": {"engine": "G+F", "design_ref": "DESIGN.md section 3 C01",
            "technique": "static analysis: capture-scope def/use between grammar results names and parse actions, call binding against constructor signatures/annotations, marker-to-spelling chain",
            "text": "Decides that nothing the grammar matches is dropped, invented or routed to another field "
                    "between the grammar and the node objects (every information point of every parse action's "
                    "capture scope is read; every read name is defined; constructor binding by arity, keyword "
                    "and annotated node type), that both scopes accept the same declaration kinds, that member "
                    "kinds are routed by type, and that qualifier markers reach the right flag and C++ spelling. "
                    "Does not decide which alternative the longest-match Or picks for ambiguous inputs.",
            "note": TB},
    "C12": {"engine": "G", "design_ref": "DESIGN.md section 3 C12",
            "technique": "static analysis: grammar reconstruction + layout classification of terminals/combinators",
            "text": "Decides the necessary structural conditions for layout/comment independence of parsing: "
                    "comment skipper installed on the parse root and covering the whole grammar, no "
                    "layout-sensitive terminal or combinator outside the documented verbatim zones, single "
                    "anchored parse entry. Covers every grammar node, hence every input; does not re-prove "
                    "byte-identical generator output (follows from equal trees + C14).",
            "note": TB},
    "C19": {"engine": "G", "design_ref": "DESIGN.md section 3 C19",
            "technique": "static analysis: memoisation-enabled lint over all modules + left-recursion/nullable-repetition analysis of the grammar IR",
            "text": "Decides the structural preconditions of polynomial parsing (memoisation on, unconditional, "
                    "never overridden; no left recursion; no nullable repetition). No time bound is claimed: "
                    "timing is a run-time quantity.",
            "note": TB},
}
PENDING = "checker not implemented yet in this revision (see DESIGN.md section 3 for the planned static rules)"
NOT_APPLICABLE = {p: PENDING for p in
                  ["C02", "C03", "C04", "C05", "C06", "C07", "C08", "C09", "C10", "C11",
                   "C13", "C14", "C15", "C16", "C17", "C18"]}
