"""Template-instantiator rules: C02 (S1-S6), C08 (N1-N5), C13 (P2-P3)."""
from __future__ import annotations

import ast
from typing import Dict, List, Optional, Set, Tuple

from .core import AnalysisError, Report
from .effects import Effects, FuncId
from .prog import (ClassInfo, ModuleInfo, Program, bind_call, bound_args, dotted, enclosing, func_params, guards_of, inline_locals,
                   local_assignments, parent, unparse, walk_no_nested)
from .rules_alias import reaching_defs
from .rules_flow import effects_engine

TI = "gtwrap/template_instantiator"
IP = "gtwrap/interface_parser"
PRIMITIVES = {"instantiate_type", "instantiate_args_list", "instantiate_return_type"}


# ------------------------------------------------------------------------------------------
def carriers(ctx) -> Dict[str, Set[str]]:
    """Parser node classes that (transitively) hold a type expression:
    class qual -> names of the __init__ parameters that carry it (from the repo's annotations)."""
    def mk():
        prog: Program = ctx.prog
        base = {"Type", "TemplatedType"}
        classes = [ci for cs in prog.classes.values() for ci in cs if ci.mod.rel.startswith(IP)]
        out: Dict[str, Set[str]] = {b: set() for b in base}
        changed = True
        while changed:
            changed = False
            for ci in classes:
                init = ci.methods.get("__init__")
                if init is None:
                    continue
                ps = set()
                for a in init.args.args[1:] + init.args.kwonlyargs:
                    if a.annotation is None:
                        continue
                    for n in ast.walk(a.annotation):
                        rc = None
                        if isinstance(n, (ast.Name, ast.Attribute, ast.Constant)):
                            rc = prog.resolve_class(n, ci.mod)
                        if rc is not None and rc.qual in out and a.arg != "parent":
                            ps.add(a.arg)
                if ps and out.get(ci.qual) != ps:
                    if ci.qual not in out or not ps <= out[ci.qual]:
                        out[ci.qual] = set(out.get(ci.qual, set())) | ps
                        changed = True
        return out
    return ctx._get("carriers", mk)


class Inst:
    """Is an expression 'instantiated' - produced by the substitution primitives (or built from
    such values) rather than taken from the uninstantiated original?"""

    def __init__(self, ctx):
        self.ctx = ctx
        self.prog: Program = ctx.prog
        self.eff: Effects = effects_engine(ctx)
        self.car = carriers(ctx)
        self._callers: Optional[Dict[FuncId, List[Tuple[FuncId, ast.Call]]]] = None
        self._memo_ret: Dict[Tuple[FuncId, Optional[int]], Tuple[bool, str]] = {}

    def callers(self, fid: FuncId):
        if self._callers is None:
            self._callers = {}
            for cf, (cmi, cfn, cci) in self.eff.funcs.items():
                if not cf.rel.startswith("gtwrap/"):
                    continue
                for c in walk_no_nested(cfn):
                    if isinstance(c, ast.Call):
                        for t in self.eff.resolve_call(c, cmi, cci, cfn):
                            self._callers.setdefault(t, []).append((cf, c))
        return self._callers.get(fid, [])

    def is_primitive(self, call: ast.Call, mi, ci, fn) -> bool:
        return any(c.qual in PRIMITIVES and c.rel.startswith(TI) for c in self.eff.resolve_call(call, mi, ci, fn))

    def carrier_ctor(self, call: ast.Call, mi, ci, fn) -> Optional[Tuple[ClassInfo, ast.FunctionDef]]:
        rc = self.prog.resolve_class(call.func, mi)
        if rc is not None and rc.mod.rel.startswith(IP) and rc.qual in self.car and self.car[rc.qual]:
            m = self.prog.find_method(rc, "__init__")
            if m:
                return rc, m[1]
        return None

    def untemplated_guard(self, node, fn) -> bool:
        """node executes only when the original has no template (nothing to substitute)."""
        for test, pol in guards_of(node, fn, include_exits=False):
            t = test.replace(" ", "")
            if pol and t.startswith("not") and t.endswith(".template"):
                return True
            if (not pol) and t.endswith(".template") and not t.startswith("not"):
                return True
        return False

    def inst(self, e: ast.AST, fn, mi, ci, depth=24, stack=()) -> Tuple[bool, str]:
        if depth <= 0:
            return False, "derivation too deep"
        if isinstance(e, ast.Constant):
            return True, "constant"
        if isinstance(e, (ast.List, ast.Tuple)):
            for x in e.elts:
                ok, why = self.inst(x, fn, mi, ci, depth - 1, stack)
                if not ok:
                    return False, why
            return True, "all elements instantiated"
        if isinstance(e, ast.ListComp):
            # loop variable stands for an element of the iterable
            return self.inst(e.elt, fn, mi, ci, depth - 1, stack)
        if isinstance(e, ast.IfExp):
            a = self.inst(e.body, fn, mi, ci, depth - 1, stack)
            b = self.inst(e.orelse, fn, mi, ci, depth - 1, stack)
            return (a[0] and b[0]), (a[1] if not a[0] else b[1])
        if isinstance(e, ast.BinOp):
            a = self.inst(e.left, fn, mi, ci, depth - 1, stack)
            b = self.inst(e.right, fn, mi, ci, depth - 1, stack)
            return (a[0] and b[0]), (a[1] if not a[0] else b[1])
        if isinstance(e, ast.Subscript):
            return self.inst(e.value, fn, mi, ci, depth - 1, stack)
        if isinstance(e, ast.Call):
            if self.is_primitive(e, mi, ci, fn):
                return True, f"result of {unparse(e.func)}"
            cc = self.carrier_ctor(e, mi, ci, fn)
            if cc is not None:
                rc, init = cc
                try:
                    b = bind_call(init, e, drop_self=True)
                except AnalysisError as ex:
                    return False, str(ex)
                for p in sorted(self.car[rc.qual]):
                    if p in b:
                        ok, why = self.inst(b[p], fn, mi, ci, depth - 1, stack)
                        if not ok:
                            return False, f"{rc.qual}({p}=...) <- {why}"
                return True, f"{rc.qual} built from instantiated parts"
            if isinstance(e.func, ast.Name) and e.func.id in ("list", "tuple", "deepcopy", "copy") and e.args:
                return self.inst(e.args[0], fn, mi, ci, depth - 1, stack)
            if isinstance(e.func, ast.Attribute) and e.func.attr in ("list", "copy", "asList"):
                return self.inst(e.func.value, fn, mi, ci, depth - 1, stack)
            callees = [c for c in self.eff.resolve_call(e, mi, ci, fn) if c in self.eff.funcs]
            if not callees:
                return False, f"value of unresolved call {unparse(e.func)[:30]}"
            for c in callees:
                ok, why = self.returns_inst(c, stack)
                if not ok:
                    return False, why
            return True, "callee returns instantiated values"
        if isinstance(e, ast.Name):
            if fn is None:
                return False, "module scope"
            comp = parent(e)
            while comp is not None and comp is not fn:
                if isinstance(comp, (ast.ListComp, ast.GeneratorExp, ast.SetComp, ast.DictComp)):
                    for g in comp.generators:
                        if any(isinstance(x, ast.Name) and x.id == e.id for x in ast.walk(g.target)):
                            it = g.iter
                            if isinstance(it, ast.Call) and isinstance(it.func, ast.Name) and it.func.id in ("enumerate", "reversed", "zip"):
                                it = it.args[0]
                            return self.inst(it, fn, mi, ci, depth - 1, stack)
                comp = parent(comp)
            defs, killed = reaching_defs(fn, e.id, e)
            if not defs and not killed:
                if e.id in func_params(fn):
                    return self.param_inst(fn, mi, ci, e.id, depth - 1, stack)
                return False, f"free name {e.id}"
            for d in defs:
                if isinstance(d, (ast.Assign, ast.AnnAssign)):
                    if d.value is None:
                        continue
                    if self.untemplated_guard(d, fn):
                        continue
                    if self._reaches_only_as_none(d, e, fn):
                        continue
                    # `a, b = helper(...)`: the element of the helper's result that lands in this name
                    tgt = d.targets[0] if isinstance(d, ast.Assign) and len(d.targets) == 1 else None
                    if isinstance(tgt, ast.Tuple) and isinstance(d.value, ast.Call) and all(isinstance(x, ast.Name) for x in tgt.elts) \
                            and [x.id for x in tgt.elts].count(e.id) == 1 and not self.is_primitive(d.value, mi, ci, fn):
                        k = [x.id for x in tgt.elts].index(e.id)
                        callees = [c for c in self.eff.resolve_call(d.value, mi, ci, fn) if c in self.eff.funcs]
                        if callees and all(self._tuple_returns(c, len(tgt.elts)) for c in callees):
                            bad = None
                            for c in callees:
                                ok, why = self.returns_inst(c, stack, index=k)
                                if not ok:
                                    bad = why
                                    break
                            if bad is not None:
                                return False, f"{e.id} = element {k} of {unparse(d.value)[:50]} <- {bad}"
                            continue
                    ok, why = self.inst(d.value, fn, mi, ci, depth - 1, stack)
                    if not ok:
                        return False, f"{e.id} = {unparse(d.value)[:50]} <- {why}"
                elif isinstance(d, (ast.For, ast.comprehension)):
                    it = d.iter
                    if isinstance(it, ast.Call) and isinstance(it.func, ast.Name) and it.func.id in ("enumerate", "reversed", "zip"):
                        it = it.args[0]
                    ok, why = self.inst(it, fn, mi, ci, depth - 1, stack)
                    if not ok:
                        return False, f"{e.id} iterates {unparse(d.iter)[:40]} <- {why}"
                elif isinstance(d, ast.AugAssign):
                    ok, why = self.inst(d.value, fn, mi, ci, depth - 1, stack)
                    if not ok:
                        return False, why
                else:
                    return False, f"{e.id} bound by {type(d).__name__}"
            if not killed and e.id in func_params(fn):
                return self.param_inst(fn, mi, ci, e.id, depth - 1, stack)
            return True, "every reaching definition is instantiated"
        if isinstance(e, ast.Attribute):
            if isinstance(e.value, ast.Name) and e.value.id == "self" and fn is not None:
                assigns = [st for st in walk_no_nested(fn) if isinstance(st, ast.Assign) and len(st.targets) == 1
                           and unparse(st.targets[0]) == unparse(e)]
                if assigns:
                    for st in assigns:
                        if self.untemplated_guard(st, fn):
                            continue
                        ok, why = self.inst(st.value, fn, mi, ci, depth - 1, stack)
                        if not ok:
                            return False, f"{unparse(e)} = {unparse(st.value)[:50]} <- {why}"
                    return True, "attribute assigned instantiated values"
                return False, f"{unparse(e)} is not assigned in this function"
            return self.inst(e.value, fn, mi, ci, depth - 1, stack)
        return False, type(e).__name__

    def _tuple_returns(self, fid: FuncId, n: int) -> bool:
        mi, fn, ci = self.eff.funcs[fid]
        rets = [r for r in walk_no_nested(fn) if isinstance(r, ast.Return) and r.value is not None]
        return bool(rets) and all(isinstance(r.value, ast.Tuple) and len(r.value.elts) == n for r in rets)

    @staticmethod
    def _reaches_only_as_none(d, use, fn) -> bool:
        """`X = <anything>` followed, in the same block, by `if X is not None: X = f(X)` (no else): past that statement the first
        value survives only when it is None."""
        if not (isinstance(d, ast.Assign) and len(d.targets) == 1 and isinstance(d.targets[0], ast.Name)):
            return False
        x = d.targets[0].id
        blk = parent(d)
        for field in ("body", "orelse", "finalbody"):
            sts = getattr(blk, field, None)
            if not isinstance(sts, list) or d not in sts:
                continue
            for st in sts[sts.index(d) + 1:]:
                if st.lineno > getattr(use, "lineno", 0):
                    break
                if isinstance(st, ast.If) and not st.orelse and unparse(st.test).replace(" ", "") in (f"{x}isnotNone", x, f"{x}!=None") \
                        and any(isinstance(a, ast.Assign) and len(a.targets) == 1 and isinstance(a.targets[0], ast.Name) and a.targets[0].id == x for a in st.body) \
                        and not any(isinstance(q, (ast.Return, ast.Continue, ast.Break)) for b_ in st.body for q in ast.walk(b_)) \
                        and not any(n is use for n in ast.walk(st)):
                    return True
        return False

    def returns_inst(self, fid: FuncId, stack=(), index: Optional[int] = None) -> Tuple[bool, str]:
        if (fid, index) in self._memo_ret:
            return self._memo_ret[(fid, index)]
        if fid in stack:
            return True, "recursive"
        mi, fn, ci = self.eff.funcs[fid]
        res = (True, "returns instantiated values")
        if fn.name == "__init__":
            res = (True, "constructor")
        for r in walk_no_nested(fn):
            if isinstance(r, ast.Return) and r.value is not None:
                if self.untemplated_guard(r, fn):
                    continue
                val = r.value.elts[index] if index is not None and isinstance(r.value, ast.Tuple) and index < len(r.value.elts) else r.value
                ok, why = self.inst(val, fn, mi, ci, 24, stack + (fid,))
                if not ok:
                    res = (False, f"{fid.qual} returns {unparse(val)[:40]} <- {why}")
                    break
        self._memo_ret[(fid, index)] = res
        return res

    def param_inst(self, fn, mi, ci, pname: str, depth, stack) -> Tuple[bool, str]:
        fid = self.eff.fid_of(ci, mi, fn)
        key = ("param", fid, pname)
        if key in stack:
            return True, "recursive"
        sites = [(cf, c) for cf, c in self.callers(fid)]
        if not sites:
            return False, f"parameter {pname} of {fid.qual}: no caller inside gtwrap"
        drop = ci is not None and not any(unparse(d) == "staticmethod" for d in fn.decorator_list)
        for cf, c in sites:
            cmi, cfn, cci = self.eff.funcs[cf]
            try:
                b = bind_call(fn, c, drop_self=drop)
            except AnalysisError as ex:
                return False, str(ex)
            if pname not in b:
                continue
            ok, why = self.inst(b[pname], cfn, cmi, cci, depth, stack + (key,))
            if not ok:
                return False, f"{cf.qual} passes {unparse(b[pname])[:40]} for {pname} <- {why}"
        return True, f"every caller passes an instantiated value for {pname}"


# ------------------------------------------------------------------------------------------
def rule_coverage(ctx, rep: Report, rid="S1", min_sites=10):
    """Every parser node built inside the instantiator gets its type-carrying parameters from the
    substitution primitives."""
    I = Inst(ctx)
    prog, eff = I.prog, I.eff
    n = 0
    for fid in sorted(eff.funcs, key=repr):
        if not fid.rel.startswith(TI):
            continue
        mi, fn, ci = eff.funcs[fid]
        if fid.qual == "instantiate_type":
            continue        # the primitive itself: decided by S2-S6
        for c in walk_no_nested(fn):
            if not isinstance(c, ast.Call):
                continue
            target = None
            cc = I.carrier_ctor(c, mi, ci, fn)
            if cc is not None:
                target = cc
            elif isinstance(c.func, ast.Attribute) and c.func.attr == "__init__" and isinstance(c.func.value, ast.Call) \
                    and unparse(c.func.value.func) == "super" and ci is not None:
                for b in prog.mro(ci)[1:]:
                    if b.qual in I.car and I.car[b.qual] and "__init__" in b.methods:
                        target = (b, b.methods["__init__"])
                        break
            if target is None:
                continue
            rc, init = target
            try:
                b = bind_call(init, c, drop_self=True)
            except AnalysisError as ex:
                rep.add(rid, f"build:{fid.qual}:{rc.qual}", False, str(ex), f"{mi.rel}:{c.lineno}")
                continue
            for p in sorted(I.car[rc.qual]):
                if p not in b:
                    continue
                n += 1
                ok, why = I.inst(b[p], fn, mi, ci)
                rep.add(rid, f"build:{fid.qual}:{rc.qual}({p})", ok,
                        (f"{rc.qual}.{p} receives {unparse(b[p])[:50]}, which is taken from the uninstantiated "
                         f"original without passing through instantiate_type/args_list/return_type: template "
                         f"parameters in it stay unsubstituted ({why})") if not ok else why,
                        f"{mi.rel}:{c.lineno}")
    rep.units["node_construction_parameters_checked"] = n
    if n < min_sites:
        raise AnalysisError(f"{rep.prop}/{rid}: {n} type-carrying construction parameters found, >= {min_sites} expected")
    # the base class
    ipc = prog.method("InstantiatedClass", "instantiate_parent_class")
    ci = prog.cls("InstantiatedClass")
    hit = False
    for r in walk_no_nested(ipc):
        if isinstance(r, ast.Return) and r.value is not None:
            for c in ast.walk(r.value):
                if isinstance(c, ast.Call) and I.is_primitive(c, ci.mod, ci, ipc):
                    args = [unparse(a) for a in c.args]
                    hit = len(args) >= 3 and "parent_class" in args[0] and "typenames" in args[1] and "instantiations" in args[2]
    rep.add(rid, "build:InstantiatedClass.instantiate_parent_class:templated base class is substituted", hit,
            "a templated base class (`class D : Base<T>`) must be instantiated with the class-level typenames "
            "and instantiations", f"{ci.mod.rel}:{ipc.lineno}")


def rule_whole_replacement(ctx, rep: Report, rid="S1"):
    """The concrete type substituted for a parameter is the whole Typename (name, namespaces and its
    own template arguments): it is used as a whole, or all three fields are carried over."""
    prog = ctx.prog
    fn = prog.func(f"{TI}/helpers.py", "instantiate_type")
    mi = prog.module(f"{TI}/helpers.py")
    ip = func_params(fn)[2]          # instantiations
    n = 0
    scopes = [fn] + [g for g in ast.walk(fn) if isinstance(g, ast.FunctionDef) and g is not fn]
    for sc in scopes:
        for st in ast.walk(sc):
            if not isinstance(st, ast.Assign):
                continue
            v = st.value
            if isinstance(v, ast.Call) and unparse(v.func) in ("deepcopy", "copy.deepcopy", "copy.copy") and v.args:
                v = v.args[0]
            if not (isinstance(v, ast.Subscript) and isinstance(v.value, ast.Name) and v.value.id == ip):
                continue
            tgt = st.targets[0]
            if not isinstance(tgt, ast.Name):
                n += 1
                rep.add(rid, f"replacement:{unparse(st)[:60]}:whole concrete type", True, "stored as a whole",
                        f"{mi.rel}:{st.lineno}", nontrivial=False)
                continue
            alias = tgt.id
            reads, whole = set(), False
            for u in ast.walk(sc):
                if isinstance(u, ast.Name) and u.id == alias and isinstance(u.ctx, ast.Load):
                    p = parent(u)
                    if isinstance(p, ast.Attribute) and p.value is u:
                        if isinstance(p.ctx, ast.Load):
                            reads.add(p.attr)
                    else:
                        whole = True
            n += 1
            need = {"name", "namespaces", "instantiations"}
            ok = whole or need <= reads or not reads
            rep.add(rid, f"replacement:{alias} = {unparse(st.value)[:40]}:whole concrete type", ok,
                    f"the concrete type bound to a template parameter is taken apart field by field ({sorted(reads)}) "
                    f"and never used as a whole: {sorted(need - reads)} of it are lost - e.g. the template arguments "
                    f"of an instantiation such as PinholeCamera<Cal3Bundler>", f"{mi.rel}:{st.lineno}")
    if n < 1:
        raise AnalysisError(f"{rep.prop}/{rid}: no use of the instantiation list found in instantiate_type")


def rule_no_carry_over(ctx, rep: Report, rid="S1"):
    """Inside a loop over instantiation tuples nothing computed for one tuple is carried into the next."""
    prog = ctx.prog
    eff = effects_engine(ctx)
    n = 0
    for fid in sorted(eff.funcs, key=repr):
        if not fid.rel.startswith(TI):
            continue
        mi, fn, ci = eff.funcs[fid]
        for loop in walk_no_nested(fn):
            if not isinstance(loop, ast.For):
                continue
            it = unparse(loop.iter)
            if not ("product(" in it or it.endswith(".template)") or ".instantiations" in it):
                continue
            n += 1
            body_assigns: Dict[str, List[ast.AST]] = {}
            for st in ast.walk(loop):
                if isinstance(st, (ast.Assign, ast.AugAssign)):
                    for t in (st.targets if isinstance(st, ast.Assign) else [st.target]):
                        if isinstance(t, ast.Name):
                            body_assigns.setdefault(t.id, []).append(st)
            carried = []
            for u in ast.walk(loop):
                if isinstance(u, ast.Name) and isinstance(u.ctx, ast.Load) and u.id in body_assigns:
                    ust = u
                    while ust is not None and not isinstance(ust, ast.stmt):
                        ust = parent(ust)
                    for d in body_assigns[u.id]:
                        if d.lineno > ust.lineno or (d is ust and not _accumulates(d, u.id)):
                            # defined later in the body than it is used: the value of the previous round
                            if d is ust:
                                continue
                            carried.append((u.id, u.lineno, d.lineno))
            names = sorted({c[0] for c in carried})
            rep.add(rid, f"per-combination:{fid.qual}:loop over {it[:40]}", not names,
                    f"variable(s) {names} are used in the loop body before they are (re)assigned later in the same "
                    f"body: from the second instantiation tuple on they hold what was computed for the previous "
                    f"tuple, so one instantiation receives another's types", f"{mi.rel}:{loop.lineno}")
    # a loop that became a comprehension cannot carry anything over: what must not vanish is the scanned code, not the loops
    scanned = sum(1 for fid in eff.funcs if fid.rel.startswith(TI))
    rep.units["instantiation_loops"] = n
    if scanned < 20:
        raise AnalysisError(f"{rep.prop}/{rid}: only {scanned} functions of the instantiator were scanned")


def _accumulates(st, name) -> bool:
    return True


def rule_parallel_lists(ctx, rep: Report, rid="S1"):
    """Where class-level and member-level lists are combined, class level comes first in both the
    typename list and the instantiation list."""
    prog = ctx.prog
    eff = effects_engine(ctx)
    n = 0
    for fid in sorted(eff.funcs, key=repr):
        if not fid.rel.startswith(TI):
            continue
        mi, fn, ci = eff.funcs[fid]
        for b in walk_no_nested(fn):
            if isinstance(b, ast.BinOp) and isinstance(b.op, ast.Add) and isinstance(b.left, ast.Name) \
                    and isinstance(b.right, ast.Name):
                l, r = b.left.id, b.right.id
                if "instantiations" in l and "instantiations" in r:
                    n += 1
                    ok = ("class" in l and ("method" in r or "member" in r))
                    rep.add(rid, f"order:{fid.qual}:{l} + {r}", ok,
                            "the combined instantiation list must be class-level first, member-level second - the "
                            "order in which the combined typename list is built (typenames, then the member's)",
                            f"{mi.rel}:{b.lineno}")
        # typenames.extend(member typenames) after copying the class-level list
        for c in walk_no_nested(fn):
            if isinstance(c, ast.Call) and isinstance(c.func, ast.Attribute) and c.func.attr in ("extend", "insert") \
                    and "typenames" in unparse(c.func.value):
                n += 1
                ok = c.func.attr == "extend" and unparse(c.args[0]).endswith(".template.typenames")
                rep.add(rid, f"order:{fid.qual}:{unparse(c)[:50]}", ok,
                        "member-level typenames must be appended after the class-level ones", f"{mi.rel}:{c.lineno}")
    if n < 3:
        raise AnalysisError(f"{rep.prop}/{rid}: {n} list-combination sites found, 3 expected")
    # the call site that feeds the two lists
    h = prog.method("InstantiationHelper", "multilevel_instantiation")
    hc = prog.cls("InstantiationHelper")
    calls = [c for c in walk_no_nested(h) if isinstance(c, ast.Call) and unparse(c.func) == "self.instantiate"]
    for c in calls:
        kw = {k_: unparse(v_) for k_, v_ in bound_args(prog.method("InstantiationHelper", "instantiate"), c).items()}
        ok = kw.get("class_instantiations", "").endswith("parent.instantiations") and \
            (kw.get("method_instantiations") in ("[]",) or "instantiations" in kw.get("method_instantiations", ""))
        rep.add(rid, f"order:InstantiationHelper.multilevel_instantiation:{kw.get('method_instantiations')}", ok,
                f"class_instantiations={kw.get('class_instantiations')}, method_instantiations="
                f"{kw.get('method_instantiations')}", f"{hc.mod.rel}:{c.lineno}")


def rule_depth(ctx, rep: Report, rid="S2"):
    prog = ctx.prog
    fn = prog.func(f"{TI}/helpers.py", "instantiate_type")
    rec = []
    lazy: List[Tuple[str, ast.AST]] = []
    for f in ast.walk(fn):
        if isinstance(f, ast.FunctionDef):
            # the function refers to itself (a call, or its own name handed to map / filter) and ranges over the template arguments
            selfcalls = [c for c in ast.walk(f) if isinstance(c, ast.Name) and c.id == f.name and isinstance(c.ctx, ast.Load)]
            loops = [l for l in ast.walk(f) if isinstance(l, (ast.For, ast.comprehension)) and (".instantiations" in unparse(l.iter) or ".template_params" in unparse(l.iter))]
            loops += [c for c in ast.walk(f) if isinstance(c, ast.Call) and isinstance(c.func, ast.Name) and c.func.id in ("map", "filter") and len(c.args) == 2
                      and (".instantiations" in unparse(c.args[1]) or ".template_params" in unparse(c.args[1]))]
            if selfcalls and loops and f is not fn:
                rec.append(f.name)
                # every sibling argument is visited: the recursion is not consumed lazily by a short-circuiting aggregator
                for c in ast.walk(f):
                    if isinstance(c, ast.Call) and isinstance(c.func, ast.Name) and c.func.id in ("any", "all", "next") and c.args \
                            and isinstance(c.args[0], (ast.GeneratorExp, ast.Call)) and not (isinstance(c.args[0], ast.Call) and unparse(c.args[0].func) in ("list", "tuple", "sorted")) \
                            and any(isinstance(x, ast.Name) and x.id == f.name for x in ast.walk(c.args[0])):
                        lazy.append((f.name, c))
                    if isinstance(c, ast.BoolOp) and sum(1 for v in c.values if any(isinstance(x, ast.Name) and x.id == f.name for x in ast.walk(v))) >= 1 \
                            and len(c.values) > 1 and any(isinstance(x, ast.Call) and isinstance(x.func, ast.Name) and x.func.id == f.name for v in c.values[1:] for x in ast.walk(v)):
                        lazy.append((f.name, c))
            wl = [w for w in ast.walk(f) if isinstance(w, ast.While) and any(
                isinstance(c, ast.Call) and isinstance(c.func, ast.Attribute) and c.func.attr in ("pop", "popleft") for c in ast.walk(w))]
            if wl and any(".instantiations" in unparse(w) for w in wl):
                rec.append(f.name + " (worklist)")
    # no return path may bypass the recursive rewrite (a shallow "nothing to do" gate in front of it
    # returns types whose parameter sits deeper than the gate looks)
    first_call = None
    for st in fn.body:
        if any(isinstance(c, ast.Call) and isinstance(c.func, ast.Name) and c.func.id in [r.split(" ")[0] for r in rec]
               for c in ast.walk(st)) and not isinstance(st, ast.FunctionDef):
            first_call = st
            break
    early = [r for r in walk_no_nested(fn) if isinstance(r, ast.Return) and first_call is not None and r.lineno < first_call.lineno]
    if rec:
        rep.add(rid, "instantiate_type:no return bypasses the recursive rewrite of template arguments", not early and first_call is not None,
                f"return at line(s) {[r.lineno for r in early]} precedes the call of the recursive rewrite: a test that looks "
                f"only at the type's own name / first-level arguments decides 'nothing to substitute' for "
                f"std::vector<std::pair<T,int>>", f"{TI}/helpers.py:{(early[0].lineno if early else fn.lineno)}")
    if rec:
        rep.add(rid, "instantiate_type:the rewrite visits every sibling template argument", not lazy,
                "; ".join(f"{nm}: `{unparse(c)[:60]}` (line {c.lineno})" for nm, c in lazy[:2]) +
                ": the recursive rewrite is consumed by a short-circuiting `any` / `all` / `or` over a lazy iterator, so it stops at the first argument "
                "for which it reports success - in std::pair<K, V> nested one level down, V keeps the template parameter's name",
                f"{TI}/helpers.py:{lazy[0][1].lineno if lazy else fn.lineno}")
    rep.add(rid, "instantiate_type:template arguments are rewritten at every nesting depth", bool(rec),
            "the rewrite of template arguments iterates over the first level of `typename.instantiations` only "
            "(no recursion, no worklist): a parameter nested deeper, e.g. std::vector<std::vector<T>>, is never "
            "substituted" if not rec else f"recursive walk in {rec}", f"{TI}/helpers.py:{fn.lineno}")


def rule_whole_identifier(ctx, rep: Report, rid="S3", funcs: Optional[Set[str]] = None,
                          exclude: Set[str] = frozenset()):
    prog = ctx.prog
    n = 0
    for mi in sorted(prog.modules.values(), key=lambda m: m.rel):
        if not mi.rel.startswith(TI):
            continue
        n += 1
        bad = []
        for c in ast.walk(mi.tree):
            if isinstance(c, ast.Call) and isinstance(c.func, ast.Attribute) and c.func.attr in ("replace", "translate") \
                    and len(c.args) >= 1:
                fn = enclosing(c, ast.FunctionDef)
                if (funcs is None or (fn is not None and fn.name in funcs)) and not (fn is not None and fn.name in exclude):
                    bad.append((c, fn.name if fn else "<module>"))
            elif isinstance(c, ast.Call) and (dotted(c.func) or "") in ("re.sub", "re.subn"):
                fn = enclosing(c, ast.FunctionDef)
                if (funcs is None or (fn is not None and fn.name in funcs)) and not (fn is not None and fn.name in exclude):
                    bad.append((c, fn.name if fn else "<module>"))
        for c, f in bad:
            rep.add(rid, f"substring-rewrite:{f}:{unparse(c)[:60]}", False,
                    "a substring-level rewrite is applied to a type spelling / name: every occurrence of the "
                    "pattern is rewritten, including inside longer identifiers (Tx::T with T=double becomes "
                    "doublex::double; abcab capitalised becomes AbcAb)", f"{mi.rel}:{c.lineno}")
        if not bad:
            rep.add(rid, f"no substring-level rewrite in {mi.rel}", True, "", f"{mi.rel}:0", nontrivial=False)
    if n < 6:
        raise AnalysisError(f"{rep.prop}/{rid}: {n} instantiator modules scanned, >= 6 expected")


def rule_qualifier_forwarding(ctx, rep: Report, rid="S4", min_sites=3):
    prog = ctx.prog
    fn = prog.func(f"{TI}/helpers.py", "instantiate_type")
    mi = prog.module(f"{TI}/helpers.py")
    tinit = prog.method("Type", "__init__")
    stored = {st.value.id: st.targets[0].attr for st in walk_no_nested(tinit) if isinstance(st, ast.Assign)
              and len(st.targets) == 1 and isinstance(st.targets[0], ast.Attribute) and isinstance(st.value, ast.Name)}
    flags = [p for p in func_params(tinit)[1:] if p.startswith("is_")]
    n = 0
    import re as _re
    for c in ast.walk(fn):
        b = ctor_binding(prog, mi, c, "Type") if isinstance(c, ast.Call) else None
        if b is not None:
            n += 1
            srcs = set()
            for p in flags:
                a = b.get(p)
                key = f"rebuild:instantiate_type@{_branch_label(c, fn)}:{p}"
                m_ = _re.fullmatch(r"([A-Za-z_]\w*)\.([A-Za-z_]\w*)", a or "")
                ok = m_ is not None and m_.group(2) == stored.get(p)
                if ok:
                    srcs.add(m_.group(1))
                rep.add(rid, key, ok,
                        f"Type(...{p}={a if a is not None else 'missing'}) must forward the original's "
                        f"{stored.get(p)}: the qualifier would be dropped or swapped", f"{mi.rel}:{c.lineno}")
            rep.add(rid, f"rebuild:instantiate_type@{_branch_label(c, fn)}:one source object", len(srcs) == 1,
                    f"qualifiers are taken from {sorted(srcs)}", f"{mi.rel}:{c.lineno}")
    if n < min_sites:
        raise AnalysisError(f"{rep.prop}/{rid}: {n} Type(...) reconstruction sites in instantiate_type, {min_sites} expected")


def _branch_label(node, fn) -> str:
    gs = guards_of(node, fn, include_exits=False)
    return (gs[-1][0][:40] if gs else "top")


def rule_name_default_forwarding(ctx, rep: Report, rid="S5"):
    prog = ctx.prog
    eff = effects_engine(ctx)
    n = 0
    for fid in sorted(eff.funcs, key=repr):
        if not fid.rel.startswith(TI):
            continue
        mi, fn, ci = eff.funcs[fid]
        for c in walk_no_nested(fn):
            if not isinstance(c, ast.Call):
                continue
            rc = prog.resolve_class(c.func, mi)
            if rc is None or rc.qual not in ("Argument", "Variable"):
                continue
            init = prog.find_method(rc, "__init__")[1]
            b = bind_call(init, c, drop_self=True)
            srcs = set()
            for p in ("name", "default"):
                n += 1
                a = b.get(p)
                ok = isinstance(a, ast.Attribute) and a.attr == p and isinstance(a.value, ast.Name)
                if ok:
                    srcs.add(a.value.id)
                rep.add(rid, f"copy:{fid.qual}:{rc.qual}({p})", ok,
                        f"{rc.qual}({p}={unparse(a) if a is not None else 'missing'}): the instantiated "
                        f"{rc.qual.lower()} must keep the original's {p} unchanged", f"{mi.rel}:{c.lineno}")
            rep.add(rid, f"copy:{fid.qual}:{rc.qual}:one source object", len(srcs) == 1, f"sources {sorted(srcs)}",
                    f"{mi.rel}:{c.lineno}", nontrivial=False)
    if n < 4:
        raise AnalysisError(f"{rep.prop}/{rid}: {n} name/default forwarding sites, 4 expected")


def ctor_binding(prog, mi, call: ast.Call, cls_qual: str, depth: int = 2) -> Optional[Dict[str, str]]:
    """parameter -> argument text for a construction of `cls_qual`, in the caller's terms: either `call` constructs the
    class itself, or it calls a module-level helper whose only return is such a construction (the helper's parameters
    are then replaced by the arguments of this call)."""
    rc = prog.resolve_class(call.func, mi)
    if rc is not None:
        if rc.qual != cls_qual:
            return None
        init = prog.find_method(rc, "__init__")
        try:
            return {k: unparse(v) for k, v in bind_call(init[1], call, drop_self=True).items()}
        except AnalysisError:
            return None
    if depth <= 0 or not isinstance(call.func, ast.Name):
        return None
    h = mi.functions.get(call.func.id)
    if h is None:
        return None
    rets = [r for r in walk_no_nested(h) if isinstance(r, ast.Return) and r.value is not None]
    if len(rets) != 1 or not isinstance(rets[0].value, ast.Call):
        return None
    inner = ctor_binding(prog, mi, rets[0].value, cls_qual, depth - 1)
    if inner is None:
        return None
    try:
        outer = {k: unparse(v) for k, v in bind_call(h, call, drop_self=False).items()}
    except AnalysisError:
        return None
    import re as _re

    def sub(txt: str) -> str:
        for pn in sorted(outer, key=len, reverse=True):
            txt = _re.sub(rf"(?<![\w.]){_re.escape(pn)}\b", lambda m_: outer[pn], txt)
        return txt
    return {k: sub(v) for k, v in inner.items()}


def rule_this(ctx, rep: Report, rid="S6"):
    prog = ctx.prog
    n = 0
    for mi in sorted(prog.modules.values(), key=lambda m: m.rel):
        if not mi.rel.startswith(TI):
            continue
        for c in ast.walk(mi.tree):
            if isinstance(c, ast.Constant) and c.value == "This":
                p = parent(c)
                fn = enclosing(c, ast.FunctionDef)
                n += 1
                where = f"{mi.rel}:{c.lineno}"
                key = f"this:{fn.name if fn else '?'}:{unparse(p)[:50]}"
                if isinstance(p, ast.Compare) and all(isinstance(o, (ast.Eq, ast.NotEq)) for o in p.ops):
                    rep.add(rid, key, True, "compared by equality", where)
                elif isinstance(p, ast.Compare) and all(isinstance(o, (ast.In, ast.NotIn)) for o in p.ops):
                    other = p.comparators[0] if p.left is c else p.left
                    listy = unparse(other).endswith(".namespaces") or ".split(" in unparse(other)
                    # a substring test may only select a branch whose own operations are list-level
                    rep.add(rid, key, True,
                            "list membership" if listy else "substring test used only to select a branch; the "
                            "replacements inside the branch are decided separately", where, nontrivial=not listy)
                elif isinstance(p, ast.Call) and isinstance(p.func, ast.Attribute) and p.func.attr == "index":
                    rep.add(rid, key, True, "list index lookup", where)
                else:
                    rep.add(rid, key, False,
                            "the reserved name `This` is used other than in an equality / list-membership test "
                            f"({type(p).__name__}): identifiers that merely contain it could be rewritten", where)
    if n < 4:
        raise AnalysisError(f"{rep.prop}/{rid}: {n} uses of the reserved name This, 4 expected")
    # the substring test `'This' in <spelling>` only *selects* the branch for `This::Nested` spellings; it is harmless exactly as long
    # as the spellings that are template parameters have been dealt with before it: a parameter called `ThisType` or `NotThis`
    # contains the word as well
    fn_ = prog.func(f"{TI}/helpers.py", "instantiate_type")
    # the decisions of the function in the order in which they are taken: the tests of its top-level if / elif chains and guard
    # clauses (`if <test>: ... return`), top to bottom
    chain_top = []
    for st in fn_.body:
        cur = st if isinstance(st, ast.If) else None
        while cur is not None:
            chain_top.append(cur.test)
            cur = cur.orelse[0] if len(cur.orelse) == 1 and isinstance(cur.orelse[0], ast.If) else None
    if not any("This" in unparse(t) for t in chain_top):
        chain_top = None
    if chain_top is not None:
        def kind(t) -> str:
            txt = unparse(inline_locals(fn_, t)).replace(" ", "")
            if isinstance(t, ast.Compare) and len(t.ops) == 1 and isinstance(t.ops[0], ast.In) and isinstance(t.left, ast.Constant) and t.left.value == "This" \
                    and not (unparse(t.comparators[0]).endswith(".namespaces") or ".split(" in unparse(t.comparators[0])):
                return "substring"
            if "template_typenames" in txt or "is_scoped_template" in txt or "scoped_template" in unparse(t):
                return "parameter"
            return "other"
        kinds = [kind(t) for t in chain_top]
        sub_i = [k for k, x in enumerate(kinds) if x == "substring"]
        par_i = [k for k, x in enumerate(kinds) if x == "parameter"]
        rep.add(rid, "this:instantiate_type:the substring test for `This` is reached only by spellings that are no template parameter",
                not sub_i or (bool(par_i) and max(par_i) < min(sub_i)),
                f"order of the tests {kinds}: the substring test stands in front of a template-parameter test, so a parameter whose identifier contains "
                f"`This` (`ThisType`, `NotThis`) takes the `This` branch and is returned unsubstituted - the output depends on how the parameter is called",
                f"{TI}/helpers.py:{chain_top[0].lineno}")
    # replacement value: cpp_typename (parameter) or derived from instantiated_class
    fn = prog.func(f"{TI}/helpers.py", "instantiate_type")
    mi = prog.module(f"{TI}/helpers.py")
    ok = False
    for st in ast.walk(fn):
        if isinstance(st, ast.If) and "== 'This'" in unparse(st.test):
            for r in ast.walk(st):
                if isinstance(r, ast.Return) and isinstance(r.value, ast.Call):
                    kw = ctor_binding(prog, mi, r.value, "Type")
                    ok = kw is not None and kw.get("typename") == "cpp_typename"
    rep.add(rid, "this:instantiate_type:replaced by the instantiated class's C++ typename", ok,
            "the `This` branch must build the type from cpp_typename", f"{mi.rel}:{fn.lineno}")


# ==========================================================================================
# C08
def _handwritten_product(fn) -> Optional[Tuple[bool, str]]:
    """Recognise  acc = [[]]; for choices in T.instantiations: acc = [p + [c] for .. for ..]; return acc
    -> (first parameter varies slowest?, description); None when the shape is not recognised."""
    loops = [l for l in fn.body if isinstance(l, ast.For)]
    if len(loops) != 1 or not unparse(loops[0].iter).endswith(".instantiations"):
        return None
    loop = loops[0]
    choices = loop.target.id if isinstance(loop.target, ast.Name) else None
    asg = [s for s in loop.body if isinstance(s, ast.Assign) and isinstance(s.value, ast.ListComp)]
    if len(asg) != 1 or len(loop.body) != 1:
        return None
    acc = unparse(asg[0].targets[0])
    comp = asg[0].value
    if len(comp.generators) != 2 or any(g.ifs for g in comp.generators):
        return None
    g0, g1 = comp.generators
    init = [s for s in fn.body if isinstance(s, (ast.Assign, ast.AnnAssign)) and unparse(s.targets[0] if isinstance(s, ast.Assign) else s.target) == acc]
    if not init or unparse(init[0].value).replace(" ", "") != "[[]]":
        return None
    rets = [s for s in fn.body if isinstance(s, ast.Return)]
    if not rets or unparse(rets[-1].value) != acc:
        return None
    names = {unparse(g0.iter): unparse(g0.target), unparse(g1.iter): unparse(g1.target)}
    if set(names) != {acc, choices}:
        return None
    elt = unparse(comp.elt).replace(" ", "")
    if elt != f"{names[acc]}+[{names[choices]}]":
        return (False, f"element {unparse(comp.elt)} is not prefix + [choice]")
    outer = unparse(g0.iter)
    return (outer == acc, f"outer loop over {'the prefixes built so far' if outer == acc else 'the new parameter`s choices'}")


def rule_product_sites(ctx, rep: Report, rid="N1", min_sites=3):
    prog = ctx.prog
    n = 0
    # enumeration through a helper function instead of itertools.product
    eff = effects_engine(ctx)
    for mi in sorted(prog.modules.values(), key=lambda m: m.rel):
        if not mi.rel.startswith(TI):
            continue
        for loop in ast.walk(mi.tree):
            if not (isinstance(loop, ast.For) and isinstance(loop.iter, ast.Call)):
                continue
            as_arg = len(loop.iter.args) == 1 and unparse(loop.iter.args[0]).endswith(".template")
            as_method = isinstance(loop.iter.func, ast.Attribute) and unparse(loop.iter.func.value).endswith(".template") and not loop.iter.args
            if not (as_arg or as_method):
                continue
            fn = enclosing(loop, ast.FunctionDef)
            ci = None
            cls = enclosing(loop, ast.ClassDef)
            if cls is not None:
                ci = prog.cls(cls.name)
            if as_method:
                # <decl>.template.<method>(): a method of the parser's Template class
                tm = prog.find_method(prog.cls("Template"), loop.iter.func.attr)
                if tm is None:
                    raise AnalysisError(f"{mi.rel}:{loop.lineno}: instantiations are enumerated by Template.{loop.iter.func.attr}, which was not found")
                callees_fn = [(f"Template.{loop.iter.func.attr}", tm[1])]
            else:
                callees_fn = [(c.qual, eff.funcs[c][1]) for c in eff.resolve_call(loop.iter, mi, ci, fn) if c in eff.funcs]
            for cq, cfn in callees_fn:
                n += 1
                r = _handwritten_product(cfn)
                c = type("Q", (), {"qual": cq})
                key = f"product:{fn.name if fn else '?'}:{unparse(loop.iter)[:60]}"
                if r is None and any(isinstance(x, ast.Call) and (dotted(x.func) or "").endswith("product") for x in ast.walk(cfn)):
                    n -= 1
                    continue            # the helper calls itertools.product itself: that call is judged below, where it stands
                if r is None:
                    raise AnalysisError(f"{mi.rel}:{loop.lineno}: instantiations are enumerated by {c.qual}, whose "
                                        f"shape is not recognised as a Cartesian product")
                rep.add(rid, key, r[0],
                        f"{c.qual} enumerates the combinations with the {r[1]}: the first template parameter must "
                        f"vary slowest (declaration order of itertools.product)", f"{mi.rel}:{loop.lineno}")
    for mi in sorted(prog.modules.values(), key=lambda m: m.rel):
        if not mi.rel.startswith(TI):
            continue
        for it in ast.walk(mi.tree):
            if not (isinstance(it, ast.Call) and (dotted(it.func) or "").endswith("product")):
                continue
            fn = enclosing(it, ast.FunctionDef)
            # the loop that consumes the product: `for x in product(..)` or `c = product(..) ... for x in c`
            loop = parent(it) if isinstance(parent(it), ast.For) and parent(it).iter is it else None
            if loop is None and isinstance(parent(it), ast.Assign) and len(parent(it).targets) == 1 \
                    and isinstance(parent(it).targets[0], ast.Name) and fn is not None:
                nm = parent(it).targets[0].id
                cands = [l for l in ast.walk(fn) if isinstance(l, ast.For) and isinstance(l.iter, ast.Name) and l.iter.id == nm]
                if len(cands) == 1:
                    loop = cands[0]
                    # the other values the name can hold are constants ([()] = one empty combination)
                    others = [st.value for st in ast.walk(fn) if isinstance(st, ast.Assign) and len(st.targets) == 1
                              and isinstance(st.targets[0], ast.Name) and st.targets[0].id == nm and st.value is not it]
                    if any(not (isinstance(o, (ast.List, ast.Tuple)) and all(isinstance(e, (ast.Tuple, ast.List)) and not e.elts for e in o.elts))
                           for o in others):
                        raise AnalysisError(f"{mi.rel}:{it.lineno}: the product is mixed with other combination sources")
            comp_owner = None
            if loop is None and isinstance(parent(it), ast.comprehension) and parent(it).iter is it:
                # consumed by a comprehension: `[f(x) for x in product(..)]`
                comp_owner = parent(parent(it))
                loop = parent(it)
            if loop is None:
                raise AnalysisError(f"{mi.rel}:{it.lineno}: itertools.product result is not consumed by a loop this rule can follow")
            n += 1
            key = f"product:{fn.name if fn else '?'}:{unparse(it)[:60]}"
            def whole_lists(e) -> bool:
                """e is `<decl>.template.instantiations` itself - or `<p>.instantiations` where p is a parameter of this helper
                for which every caller passes `<decl>.template`."""
                if not isinstance(e, ast.Attribute) or e.attr != "instantiations":
                    return False
                if unparse(e).endswith(".template.instantiations"):
                    return True
                if fn is not None and isinstance(e.value, ast.Name) and e.value.id in func_params(fn):
                    sites = [c for m2 in prog.modules.values() if m2.rel.startswith(TI) for c in ast.walk(m2.tree)
                             if isinstance(c, ast.Call) and (dotted(c.func) or "").split(".")[-1] == fn.name]
                    idx = func_params(fn).index(e.value.id)
                    args_ = [(c.args[idx] if idx < len(c.args) else next((k.value for k in c.keywords if k.arg == e.value.id), None)) for c in sites]
                    return bool(sites) and all(a_ is not None and unparse(a_).endswith(".template") for a_ in args_)
                return False
            ok = len(it.args) == 1 and isinstance(it.args[0], ast.Starred) and not it.keywords and whole_lists(it.args[0].value)
            rep.add(rid, key, ok,
                    "instantiations must be enumerated as itertools.product(*<decl>.template.instantiations) over "
                    "the parsed lists themselves (declaration order, first parameter slowest, an empty list "
                    "yields nothing); any sorted/reversed/set/filter/slice in between changes which "
                    "instantiations exist or their order", f"{mi.rel}:{it.lineno}")
            # the loop variable reaches the instantiation unchanged (list(x) / x)
            var = loop.target.id if isinstance(loop.target, ast.Name) else None
            uses = [u for u in ast.walk(comp_owner if comp_owner is not None else loop) if isinstance(u, ast.Name) and u.id == var and isinstance(u.ctx, ast.Load)]
            def reordered(u):
                q = parent(u)
                if isinstance(q, ast.Call) and isinstance(q.func, ast.Name) and q.func.id in ("reversed", "sorted", "set", "filter"):
                    return True
                if isinstance(q, ast.Subscript) and q.value is u:
                    return True
                if isinstance(q, ast.Attribute) and q.attr in ("sort", "reverse", "pop", "remove"):
                    return True
                return False
            ok2 = bool(uses) and not any(reordered(u) for u in uses)
            rep.add(rid, key + ":tuple passed on unchanged", ok2,
                    f"the product tuple `{var}` must be handed to the instantiation as it is", f"{mi.rel}:{it.lineno}")
    if n < 1:
        raise AnalysisError(f"{rep.prop}/{rid}: no itertools.product site found")
    # what must not vanish is the enumeration itself: the class branch and the function branch of instantiate_namespace
    # each reach a product (in place or through a helper they call)
    nmi = prog.module(f"{TI}/namespace.py")
    ins = nmi.functions.get("instantiate_namespace")
    if ins is None:
        raise AnalysisError("instantiate_namespace not found")

    def has_product(node, depth=2) -> bool:
        for c in ast.walk(node):
            if isinstance(c, ast.Call):
                if (dotted(c.func) or "").endswith("product"):
                    return True
                if depth > 0 and isinstance(c.func, ast.Name) and c.func.id in nmi.functions and c.func.id != ins.name \
                        and has_product(nmi.functions[c.func.id], depth - 1):
                    return True
        return False
    for kind in ("Class", "GlobalFunction"):
        br = next((i for i in ast.walk(ins) if isinstance(i, ast.If) and isinstance(i.test, ast.Call) and unparse(i.test.func) == "isinstance"
                   and unparse(i.test.args[1]).split(".")[-1] == kind), None)
        if br is None:
            raise AnalysisError(f"instantiate_namespace: branch for parser.{kind} not found")
        rep.add(rid, f"product:instantiate_namespace:{kind}:the listed instantiations are enumerated", has_product(ast.Module(body=br.body, type_ignores=[])),
                f"the parser.{kind} branch never reaches an itertools.product over the template's instantiation lists", f"{nmi.rel}:{br.lineno}")


def rule_typedef_path(ctx, rep: Report, rid="N2", min_kinds=3):
    prog = ctx.prog
    fn = prog.func(f"{TI}/namespace.py", "instantiate_namespace")
    mi = prog.module(f"{TI}/namespace.py")
    branch = None
    for st in ast.walk(fn):
        if isinstance(st, ast.If) and "TypedefTemplateInstantiation" in unparse(st.test):
            branch = st
    if branch is None:
        raise AnalysisError("instantiate_namespace: typedef branch not found")
    tvar = None
    for t in ast.walk(branch.test):
        if isinstance(t, ast.Call) and unparse(t.func) == "isinstance":
            tvar = unparse(t.args[0])
    # alias: typedef_inst = element
    aliases = {tvar}
    for st in branch.body:
        if isinstance(st, ast.Assign) and isinstance(st.value, ast.Name) and st.value.id in aliases:
            aliases.add(st.targets[0].id)
    from .prog import inline_locals

    def is_lookup(fn_, call, tnames) -> bool:
        """<ns>.top_level().find_class_or_function(<typedef>.typename)"""
        return isinstance(call, ast.Call) and isinstance(call.func, ast.Attribute) and call.func.attr == "find_class_or_function" \
            and len(call.args) == 1 and any(unparse(call.args[0]) == f"{a}.typename" for a in tnames) \
            and unparse(inline_locals(fn_, call.func.value)).endswith(".top_level()")

    loop = next((l for l in fn.body if isinstance(l, ast.For) and any(x is branch for x in ast.walk(l))), None)
    if loop is None:
        raise AnalysisError("instantiate_namespace: the loop over the namespace content was not found")
    recursive = [c for c in ast.walk(loop) if isinstance(c, ast.Call) and unparse(c.func) == fn.name]
    inline_lookups = [c for st in branch.body for c in ast.walk(st) if isinstance(c, ast.Call)
                      and isinstance(c.func, ast.Attribute) and c.func.attr == "find_class_or_function"]
    table_reads = [st for st in branch.body if isinstance(st, ast.Assign) and isinstance(st.value, ast.Subscript)]
    lookup_ok, early_ok, detail = False, False, ""
    accepted_defs: List[ast.AST] = []
    if inline_lookups:
        lookup_ok = len(inline_lookups) == 1 and is_lookup(fn, inline_lookups[0], aliases)
        accepted_defs = [parent(c) for c in inline_lookups if isinstance(parent(c), ast.Assign)]
        early_ok = not recursive
        detail = ("the lookup runs inside the loop that also replaces the content of nested namespaces "
                  f"({unparse(recursive[0])[:50]}): a typedef placed after `namespace a {{ template<T> class Foo{{}}; }}` looks for "
                  "a::Foo when namespace a no longer contains it and the valid module is rejected ('Cannot find class')") if recursive else ""
    elif table_reads:
        rd = table_reads[0]
        tbl, key = rd.value.value, rd.value.slice
        key_ok = any(unparse(key) in (f"id({a})", a) for a in aliases)
        tparam = tbl.id if isinstance(tbl, ast.Name) and tbl.id in func_params(fn) else None
        # the table is built by a resolver before the loop, unless the caller handed it in
        inits = [st for st in fn.body if isinstance(st, ast.If) and tparam and unparse(st.test) == f"{tparam} is None"
                 and len(st.body) == 1 and isinstance(st.body[0], ast.Assign) and unparse(st.body[0].targets[0]) == tparam
                 and isinstance(st.body[0].value, ast.Call)]
        resolver = None
        if len(inits) == 1 and fn.body.index(inits[0]) < fn.body.index(loop):
            rname = unparse(inits[0].body[0].value.func)
            resolver = mi.functions.get(rname)
            passed = all(any(unparse(a) == tparam for a in list(c.args) + [k.value for k in c.keywords]) for c in recursive)
        if resolver is None:
            detail = "the table of typedef targets is not built by a resolver function before the content loop"
        else:
            rp = func_params(resolver)

            def walks_all_typedefs(f, emits) -> bool:
                """f walks `<its first parameter>.content`, does `emits(stmt, element var, namespace param)` for every element
                that is a typedef (under that isinstance test only) and applies itself to every element that is a namespace."""
                p0 = func_params(f)[0]
                for l in [x for x in f.body if isinstance(x, ast.For)]:
                    if not (isinstance(l.target, ast.Name) and unparse(l.iter) == f"{p0}.content"):
                        continue
                    ev = l.target.id
                    hit = False
                    for st in ast.walk(l):
                        if isinstance(st, ast.stmt) and emits(st, ev, p0):
                            g = [t for t, pol in guards_of(st, f, include_exits=False) if pol]
                            if len(g) == 1 and "TypedefTemplateInstantiation" in g[0] and ev in g[0]:
                                hit = True
                    rec = [c for c in ast.walk(l) if isinstance(c, ast.Call) and unparse(c.func) == f.name and c.args and unparse(c.args[0]) == ev]
                    rec_ok_ = bool(rec) and all(
                        [t for t, pol in guards_of(c, f, include_exits=False) if pol] and
                        all("Namespace" in t for t, pol in guards_of(c, f, include_exits=False) if pol) and
                        len(guards_of(c, f, include_exits=True)) <= 2 for c in rec)
                    if hit and rec_ok_:
                        return True
                return False

            def stores_lookup(st, ev, nsv) -> bool:
                if not (isinstance(st, ast.Assign) and len(st.targets) == 1 and isinstance(st.targets[0], ast.Subscript)):
                    return False
                x = st.targets[0]
                if unparse(x.slice) not in (f"id({ev})", ev):
                    return False
                v = st.value
                return is_lookup(enclosing(st, ast.FunctionDef), v, {ev}) and \
                    unparse(inline_locals(enclosing(st, ast.FunctionDef), v.func.value)) == f"{nsv}.top_level()"
            good_store = rec_ok = walks_all_typedefs(resolver, stores_lookup)
            if not good_store:
                # the walk may live in a generator: `for ns, td in walker(namespace): table[id(td)] = ns.top_level().find...(td.typename)`
                for l in [x for x in resolver.body if isinstance(x, ast.For)]:
                    if not (isinstance(l.target, ast.Tuple) and len(l.target.elts) == 2 and all(isinstance(e, ast.Name) for e in l.target.elts)
                            and isinstance(l.iter, ast.Call) and isinstance(l.iter.func, ast.Name) and l.iter.args
                            and unparse(l.iter.args[0]) == rp[0]):
                        continue
                    nsv, tdv = l.target.elts[0].id, l.target.elts[1].id
                    walker = mi.functions.get(l.iter.func.id)
                    body_ok = any(stores_lookup(st, tdv, nsv) and not guards_of(st, resolver, include_exits=False) for st in l.body)

                    def yields_pair(st, ev, p0):
                        return isinstance(st, ast.Expr) and isinstance(st.value, ast.Yield) and isinstance(st.value.value, ast.Tuple) \
                            and [unparse(e) for e in st.value.value.elts] == [p0, ev]
                    if walker is not None and body_ok:
                        # in the generator the recursion is `yield from walker(element)`
                        good_store = rec_ok = walks_all_typedefs(walker, yields_pair) and all(
                            isinstance(parent(c), ast.YieldFrom) for c in ast.walk(walker)
                            if isinstance(c, ast.Call) and unparse(c.func) == walker.name)
            pure = not any(isinstance(x, ast.Attribute) and isinstance(x.ctx, ast.Store) for x in ast.walk(resolver)) and \
                not any(isinstance(c, ast.Call) and unparse(c.func) == fn.name for c in ast.walk(resolver))
            lookup_ok = key_ok and good_store and rec_ok
            early_ok = pure and passed
            accepted_defs = [rd]
            detail = f"resolver {resolver.name}: keyed by the typedef {key_ok}, stores the module-wide lookup for every typedef {good_store}, " \
                     f"descends into every nested namespace {rec_ok}, replaces nothing {pure}, table handed to nested calls {passed}"
    rep.add(rid, "typedef:target resolved from the module's top level by the typedef's typename", lookup_ok,
            "the typedef'd template must be looked up with top_level().find_class_or_function(<typedef>.typename) so "
            "that typedefs at any namespace depth resolve; " + detail, f"{mi.rel}:{branch.lineno}")
    rep.add(rid, "typedef:target resolved before any namespace content is replaced (typedef before or after the template)", early_ok and lookup_ok,
            detail or "lookup not recognised", f"{mi.rel}:{branch.lineno}")
    n = 0
    for st in branch.body:
        for c in ast.walk(st):
            if not isinstance(c, ast.Call):
                continue
            targets_ = []
            rc0 = prog.resolve_class(c.func, mi)
            if rc0 is not None:
                targets_ = [rc0]
            elif isinstance(c.func, ast.Name):
                # table-driven: `for kind, inst in TABLE: if isinstance(original, kind): ...inst(original, ...); break`
                l_ = enclosing(c, ast.For)
                if l_ is not None and isinstance(l_.target, ast.Tuple) and any(isinstance(e, ast.Name) and e.id == c.func.id for e in l_.target.elts):
                    col = [e.id if isinstance(e, ast.Name) else None for e in l_.target.elts].index(c.func.id)
                    it_ = l_.iter
                    if isinstance(it_, ast.Name):
                        cands_ = [x.value for x in mi.tree.body if isinstance(x, ast.Assign) and len(x.targets) == 1
                                  and isinstance(x.targets[0], ast.Name) and x.targets[0].id == it_.id] + \
                                 [x.value for x in walk_no_nested(fn) if isinstance(x, ast.Assign) and len(x.targets) == 1
                                  and isinstance(x.targets[0], ast.Name) and x.targets[0].id == it_.id]
                        it_ = cands_[0] if len(cands_) == 1 else None
                    if isinstance(it_, (ast.Tuple, ast.List)) and all(isinstance(r_, ast.Tuple) and len(r_.elts) == len(l_.target.elts) for r_ in it_.elts):
                        targets_ = [prog.resolve_class(r_.elts[col], mi) for r_ in it_.elts]
                        if any(t_ is None for t_ in targets_):
                            targets_ = []
            for rc in targets_:
                if rc is None or not rc.qual.startswith("Instantiated"):
                    continue
                n += 1
                init = prog.find_method(rc, "__init__")[1]
                braw = bind_call(init, c, drop_self=True)
                b = {k: unparse(v) for k, v in braw.items()}
                orig = braw.get("original")
                only_lookup = False
                if isinstance(orig, ast.Name):
                    defs, killed = reaching_defs(fn, orig.id, orig)
                    vals = [d.value for d in defs if isinstance(d, ast.Assign)]
                    vals = [v for v in vals if not (isinstance(v, ast.Constant) and v.value is None)]
                    only_lookup = bool(vals) and all(isinstance(d, ast.Assign) for d in defs) and all(d in accepted_defs for d in defs)
                rep.add(rid, f"typedef:{rc.qual}:template taken from the module-wide lookup only", only_lookup,
                        f"`{unparse(orig) if orig is not None else None}` can also come from somewhere other than "
                        f"top_level().find_class_or_function(<typedef>.typename): a typedef may bind to a different "
                        f"declaration of the same name", f"{mi.rel}:{c.lineno}")
                ok_i = any(b.get("instantiations") == f"{a}.typename.instantiations" for a in aliases)
                ok_n = any(b.get("new_name") == f"{a}.new_name" for a in aliases)
                app = isinstance(parent(c), ast.Call) and unparse(parent(c).func).endswith(".append")
                rep.add(rid, f"typedef:{rc.qual}:exactly the typedef's arguments", ok_i,
                        f"instantiations={b.get('instantiations')}", f"{mi.rel}:{c.lineno}")
                rep.add(rid, f"typedef:{rc.qual}:carries the typedef's name", ok_n,
                        f"new_name={b.get('new_name')}: the instantiation would be named by concatenation "
                        f"instead of the name the typedef gives it", f"{mi.rel}:{c.lineno}")
                rep.add(rid, f"typedef:{rc.qual}:appended once", app, "", f"{mi.rel}:{c.lineno}", nontrivial=False)
                # the class honours new_name
                uses = [x for x in ast.walk(init) if isinstance(x, ast.Name) and x.id == "new_name" and isinstance(x.ctx, ast.Load)]
                named = any(isinstance(s, ast.Assign) and unparse(s.targets[0]) == "self.name" and "new_name" in unparse(s.value)
                            for s in ast.walk(init))
                rep.add(rid, f"typedef:{rc.qual}.__init__:name taken from new_name when given", named and bool(uses),
                        "the constructor ignores new_name", f"{rc.mod.rel}:{init.lineno}")
    if n < min_kinds:
        raise AnalysisError(f"{rep.prop}/{rid}: {n} typedef'd kinds, {min_kinds} expected")


def rule_pass_through(ctx, rep: Report, rid="N3"):
    prog = ctx.prog
    fn = prog.func(f"{TI}/namespace.py", "instantiate_namespace")
    mi = prog.module(f"{TI}/namespace.py")
    loops = [l for l in fn.body if isinstance(l, ast.For) and any(
        isinstance(i, ast.If) and "TypedefTemplateInstantiation" in unparse(i.test) for i in ast.walk(l))]
    if len(loops) != 1:
        raise AnalysisError(f"instantiate_namespace: expected one top-level loop dispatching on the element kind, found {len(loops)}")
    loop = loops[0]
    p = func_params(fn)[0]
    rep.add(rid, "content iterated in place, in order", unparse(loop.iter) == f"{p}.content",
            f"loop over {unparse(loop.iter)}: any sorted/reversed/filter changes the relative order or drops "
            f"declarations", f"{mi.rel}:{loop.lineno}")
    var = loop.target.id
    # walk the if/elif chain
    chain = None
    for st in loop.body:
        if isinstance(st, ast.If):
            n0, tests = st, []
            while isinstance(n0, ast.If):
                tests.append(unparse(n0.test))
                n0 = n0.orelse[0] if n0.orelse and len(n0.orelse) == 1 and isinstance(n0.orelse[0], ast.If) else None
            if any("Namespace" in t for t in tests) and any("TypedefTemplateInstantiation" in t for t in tests):
                chain = st
    else_ok = False
    ns_ok = False
    node = chain
    while isinstance(node, ast.If):
        if "Namespace" in unparse(node.test):
            txt = " ".join(unparse(s) for s in node.body)
            ns_ok = "instantiate_namespace(" in txt and ".append(" in txt
        if node.orelse and not (len(node.orelse) == 1 and isinstance(node.orelse[0], ast.If)):
            else_ok = any(isinstance(s, ast.Expr) and isinstance(s.value, ast.Call) and unparse(s.value.func).endswith(".append")
                          and unparse(s.value.args[0]) == var for s in node.orelse)
            break
        node = node.orelse[0] if node.orelse else None
    rep.add(rid, "non-template declarations appended unchanged (final else)", else_ok,
            "includes, enums, variables, forward declarations... must pass through once, unchanged",
            f"{mi.rel}:{loop.lineno}")
    rep.add(rid, "nested namespaces recursed into and kept in place", ns_ok, "", f"{mi.rel}:{loop.lineno}")
    tail = [unparse(s) for s in fn.body[fn.body.index(loop) + 1:]]
    rep.add(rid, "typedef instantiations appended after the rest, result stored back",
            any(".extend(" in t for t in tail) and any(t.startswith(f"{p}.content =") for t in tail),
            f"statements after the loop: {tail}", f"{mi.rel}:{fn.lineno}")
    # every append target is one of the two accumulators, each append inside the loop happens once per path
    apps = [c for c in ast.walk(loop) if isinstance(c, ast.Call) and isinstance(c.func, ast.Attribute) and c.func.attr == "append"]
    accs = {unparse(c.func.value) for c in apps}
    rep.add(rid, "two ordered accumulators only", len(accs) == 2, f"accumulators {sorted(accs)}", f"{mi.rel}:{loop.lineno}",
            nontrivial=False)
    for c in ast.walk(fn):
        if isinstance(c, ast.Call) and ((isinstance(c.func, ast.Name) and c.func.id in ("sorted", "reversed", "set"))
                                        or (isinstance(c.func, ast.Attribute) and c.func.attr in ("sort", "reverse"))):
            rep.add(rid, f"no reordering:{unparse(c)[:40]}", False, "instantiated content is reordered",
                    f"{mi.rel}:{c.lineno}")


def _spelling_shape(prog, ci, fn, recv: str = "self") -> Tuple[bool, str]:
    """Some text built in fn has the skeleton `<name><<args>>` where <name> is self.original.name (directly or through
    a local holding it) and <args> is a join over self.instantiations."""
    from .emit import Folder
    fo = Folder(prog, ci.mod, None, ci)

    def values(e, depth=3) -> List[ast.AST]:
        if isinstance(e, ast.Name) and depth > 0:
            vs = [st.value for st in walk_no_nested(fn) if isinstance(st, ast.Assign) and len(st.targets) == 1
                  and isinstance(st.targets[0], ast.Name) and st.targets[0].id == e.id]
            out = []
            for v in vs:
                out += values(v, depth - 1) if isinstance(v, ast.Name) else [v]
            return out or [e]
        return [e]
    seen = []
    for c in ast.walk(fn):
        if not (isinstance(c, ast.JoinedStr) or (isinstance(c, ast.Call) and isinstance(c.func, ast.Attribute) and c.func.attr == "format")):
            continue
        t = fo.fold(c)
        if t is None:
            continue
        lit = t.literal("§")
        seen.append(lit)
        if lit != "§<§>":
            continue
        s0, s1 = t.slots()
        name_vals = [v for v in values(s0.expr) if not (isinstance(v, (ast.JoinedStr, ast.Call)) and v is c)]
        name_ok = bool(name_vals) and all(unparse(v) == f"{recv}.original.name" or v is c or
                                          (isinstance(v, ast.JoinedStr) and fo.fold(v) is not None and fo.fold(v).literal("§") == "§<§>")
                                          for v in values(s0.expr)) and any(unparse(v) == f"{recv}.original.name" for v in values(s0.expr))
        args_ok = False
        for v in values(s1.expr):
            if isinstance(v, ast.Call) and isinstance(v.func, ast.Attribute) and v.func.attr == "join" and v.args:
                for a in values(v.args[0]):
                    gens = [g for x in ast.walk(a) if isinstance(x, (ast.ListComp, ast.GeneratorExp)) for g in x.generators]
                    if gens and all(unparse(g.iter) == f"{recv}.instantiations" and not g.ifs for g in gens):
                        args_ok = True
        if name_ok and args_ok:
            return True, "skeleton §<§> with self.original.name and a join over self.instantiations"
        return False, f"skeleton §<§> found but name from {[unparse(v)[:30] for v in values(s0.expr)]}, arguments from {[unparse(v)[:40] for v in values(s1.expr)]}"
    return False, f"no text with the skeleton Name<args> is built here (skeletons: {seen[:4]})"


def rule_naming(ctx, rep: Report, rid="N4", min_sites=5):
    prog = ctx.prog
    n = 0
    for cls in ("InstantiatedClass", "InstantiatedGlobalFunction", "InstantiatedDeclaration",
                "InstantiatedMethod", "InstantiatedStaticMethod"):
        ci = prog.cls(cls)
        init = prog.method(cls, "__init__")
        ok = False
        detail = ""
        for st in walk_no_nested(init):
            if isinstance(st, ast.Assign) and unparse(st.targets[0]) == "self.name":
                for c in ast.walk(st.value):
                    if isinstance(c, ast.Call) and unparse(c.func) == "instantiate_name":
                        a = [unparse(x) for x in c.args]
                        detail = f"instantiate_name({', '.join(a)})"
                        if len(a) == 2 and a[0] == "original.name" and a[1].endswith("instantiations"):
                            ok = True
        n += 1
        rep.add(rid, f"name:{cls}:instantiate_name(original.name, instantiations)", ok,
                f"{cls}.name is computed by {detail or 'something else'}: instantiation names must come from the one "
                f"naming helper applied to the template's own name and the instantiation list", f"{ci.mod.rel}:{init.lineno}")
    # C++ spelling: Name<args> from original.name
    for cls, meth in (("InstantiatedClass", "cpp_typename"), ("InstantiatedMethod", "to_cpp"),
                      ("InstantiatedStaticMethod", "to_cpp"), ("InstantiatedConstructor", "to_cpp"),
                      ("InstantiatedGlobalFunction", "to_cpp"), ("InstantiatedDeclaration", "to_cpp")):
        ci = prog.cls(cls)
        fn = prog.method(cls, meth)
        n += 1
        recv = "self"
        st_ = [x for x in fn.body if not (isinstance(x, ast.Expr) and isinstance(x.value, ast.Constant))]
        if len(st_) == 1 and isinstance(st_[0], ast.Return) and isinstance(st_[0].value, ast.Call) and isinstance(st_[0].value.func, ast.Name) \
                and st_[0].value.func.id in ci.mod.functions and [unparse(a_) for a_ in st_[0].value.args] == ["self"]:
            # the spelling is shared with a sibling class through a module-level helper that is given the object
            fn = ci.mod.functions[st_[0].value.func.id]
            recv = fn.args.args[0].arg
        ok, detail = _spelling_shape(prog, ci, fn, recv)
        rep.add(rid, f"spelling:{cls}.{meth}:Name<args> from the template's own name and the instantiation list", ok,
                detail, f"{ci.mod.rel}:{fn.lineno}")
    if n < min_sites:
        raise AnalysisError(f"{rep.prop}/{rid}: {n} naming sites")


def rule_capitalise(ctx, rep: Report, rid="N5"):
    prog = ctx.prog
    fn = prog.func(f"{TI}/helpers.py", "instantiate_name")
    mi = prog.module(f"{TI}/helpers.py")
    bad = [c for c in ast.walk(fn) if isinstance(c, ast.Call) and isinstance(c.func, ast.Attribute)
           and c.func.attr in ("replace", "title", "translate")]
    caps = [c for c in ast.walk(fn) if isinstance(c, ast.Call) and isinstance(c.func, ast.Attribute)
            and c.func.attr in ("capitalize", "upper")]
    positional = False
    whole = []
    for c in caps:
        recv = c.func.value
        first = isinstance(recv, ast.Subscript) and ((isinstance(recv.slice, ast.Constant) and recv.slice.value == 0)
                                                   or (isinstance(recv.slice, ast.Slice) and unparse(recv.slice).replace(" ", "") in (":1", "0:1")))
        if not first:
            whole.append(unparse(c)[:40])       # capitalize()/upper() of more than the first character lower-cases / upper-cases the rest
        if first:
            p = parent(c)
            if isinstance(p, ast.BinOp) and isinstance(p.op, ast.Add) and p.left is c and isinstance(p.right, ast.Subscript) \
                    and isinstance(p.right.slice, ast.Slice) and unparse(p.right.slice) == "1:":
                positional = True
    rep.add(rid, "instantiate_name:only the first character is upper-cased", positional and not bad and not whole,
            ("name.replace(name[0], ...) rewrites every occurrence of the first character (abcab -> AbcAb)"
             if bad else "the capitalised name must be name[0].capitalize() + name[1:]"),
            f"{mi.rel}:{(bad or caps or [fn])[0].lineno}")
    joins = [c for c in ast.walk(fn) if isinstance(c, ast.Call) and isinstance(c.func, ast.Attribute) and c.func.attr == "join"]
    iters = [(l.iter, []) for l in ast.walk(fn) if isinstance(l, ast.For)] + \
            [(g.iter, g.ifs) for c in ast.walk(fn) if isinstance(c, (ast.ListComp, ast.GeneratorExp)) for g in c.generators]
    reorder = [c for c in ast.walk(fn) if isinstance(c, ast.Call) and (unparse(c.func) in ("sorted", "reversed", "set") or
                                                                       (isinstance(c.func, ast.Attribute) and c.func.attr in ("sort", "reverse")))]
    rep.add(rid, "instantiate_name:suffixes concatenated in instantiation order",
            len(iters) == 1 and unparse(iters[0][0]) == func_params(fn)[1] and not iters[0][1] and bool(joins) and not reorder,
            f"iterations over {[unparse(i[0]) for i in iters]}, filters {[len(i[1]) for i in iters]}, reordering calls {len(reorder)}",
            f"{mi.rel}:{fn.lineno}", nontrivial=False)


# ==========================================================================================
# C13
def rule_typenames_are_keys(ctx, rep: Report, rid="P3"):
    prog = ctx.prog
    n = 0
    for mi in sorted(prog.modules.values(), key=lambda m: m.rel):
        if not mi.rel.startswith(TI):
            continue
        for x in ast.walk(mi.tree):
            ident = None
            if isinstance(x, ast.Name) and isinstance(x.ctx, ast.Load) and "typenames" in x.id:
                ident = x.id
            elif isinstance(x, ast.Attribute) and x.attr == "typenames":
                ident = unparse(x)
            if ident is None:
                continue
            if isinstance(x, ast.Name) and isinstance(parent(x), ast.Attribute) and parent(x).value is x and parent(x).attr != "typenames":
                # typenames.index(..) / .extend(..): judged at the attribute
                attr = parent(x).attr
                ok = attr in ("index", "extend", "append", "copy", "count")
                ctxd = f".{attr}()"
            else:
                p = parent(x)
                ctxd = type(p).__name__
                ok = True
                if isinstance(p, (ast.JoinedStr, ast.FormattedValue)):
                    ok = False
                elif isinstance(p, ast.Call) and isinstance(p.func, ast.Attribute) and p.func.attr in ("format", "join"):
                    ok = False
                elif isinstance(p, ast.BinOp) and isinstance(p.op, (ast.Add, ast.Mod)) and \
                        any(isinstance(s, (ast.Constant, ast.JoinedStr)) and isinstance(getattr(s, "value", ""), str) for s in (p.left, p.right)):
                    ok = False
            fn = enclosing(x, ast.FunctionDef)
            n += 1
            rep.add(rid, f"keys-only:{fn.name if fn else '<module>'}:{ident}:{ctxd}", ok,
                    "template parameter names may be used only as lookup keys (equality / membership / index); "
                    "here they flow into generated text, so renaming a parameter changes the output",
                    f"{mi.rel}:{x.lineno}", nontrivial=not ok)
    if n < 20:
        raise AnalysisError(f"{rep.prop}/{rid}: {n} uses of template typename lists found, >= 20 expected")
    # a parameter name is looked up in a list of components, never inside a spelling (substring)
    eff = effects_engine(ctx)
    for fid in sorted(eff.funcs, key=repr):
        if not fid.rel.startswith(TI):
            continue
        mi, fn, ci = eff.funcs[fid]
        tainted = set()
        for l in ast.walk(fn):
            if isinstance(l, (ast.For, ast.comprehension)) and "typenames" in unparse(l.iter):
                for x in ast.walk(l.target):
                    if isinstance(x, ast.Name):
                        tainted.add(x.id)
        anns = {a.arg: unparse(a.annotation) for a in fn.args.args if a.annotation is not None}
        for c in ast.walk(fn):
            if isinstance(c, ast.Compare) and len(c.ops) == 1 and isinstance(c.ops[0], (ast.In, ast.NotIn)):
                left_names = {x.id for x in ast.walk(c.left) if isinstance(x, ast.Name)}
                if not (left_names & tainted):
                    continue
                comp = c.comparators[0]

                def is_text(e, depth=4) -> bool:
                    """The expression is certainly a str (a spelling), not a list of components."""
                    if depth <= 0:
                        return False
                    if isinstance(e, ast.JoinedStr) or (isinstance(e, ast.Constant) and isinstance(e.value, str)):
                        return True
                    if isinstance(e, ast.Name):
                        if anns.get(e.id) == "str":
                            return True
                        ds = [d.value for d in local_assignments(fn).get(e.id, []) if isinstance(d, ast.Assign)]
                        return bool(ds) and all(is_text(v, depth - 1) for v in ds)
                    if isinstance(e, ast.Call):
                        f_ = unparse(e.func)
                        if f_ in ("str", "repr"):
                            return True
                        if isinstance(e.func, ast.Attribute) and e.func.attr in ("format", "join", "replace", "strip", "lstrip", "rstrip", "lower", "upper",
                                                                                  "to_cpp", "qualified_name", "instantiated_name"):
                            return True
                        return False
                    if isinstance(e, ast.BinOp) and isinstance(e.op, (ast.Add, ast.Mod)):
                        return is_text(e.left, depth - 1) or is_text(e.right, depth - 1)
                    if isinstance(e, ast.Subscript) and isinstance(e.slice, ast.Slice):
                        return is_text(e.value, depth - 1)
                    return False
                stringy = is_text(comp)
                n += 1
                rep.add(rid, f"keys-only:{fid.qual}:{unparse(c)[:50]}", not stringy,
                        f"a template parameter name is searched for *inside a type spelling* ({unparse(c)}): any "
                        f"identifier that merely contains (or ends with) the parameter's spelling matches, so the "
                        f"result depends on how the parameter happens to be named", f"{mi.rel}:{c.lineno}")
    # no identifier other than the reserved `This` is compared as a literal
    allowed = {"This", "::", ""}
    for mi in sorted(prog.modules.values(), key=lambda m: m.rel):
        if not mi.rel.startswith(TI):
            continue
        for c in ast.walk(mi.tree):
            if isinstance(c, ast.Compare):
                for s in [c.left] + c.comparators:
                    if isinstance(s, ast.Constant) and isinstance(s.value, str) and s.value not in allowed:
                        fn = enclosing(c, ast.FunctionDef)
                        rep.add(rid, f"literal-compare:{fn.name if fn else '?'}:{s.value!r}", False,
                                f"the instantiator special-cases the identifier {s.value!r}: a template parameter "
                                f"or type with that spelling is treated differently from any other",
                                f"{mi.rel}:{c.lineno}")


def rule_template_argument_identity(ctx, rep: Report, rid="S8"):
    """instantiate_type substitutes the template arguments of a TemplatedType by renaming the Typename objects held in
    `ctype.typename.instantiations`, while the type is *printed* (to_cpp) from `template_params`.  The substitution
    reaches the printed text only because TemplatedType.__init__ puts the very Typename objects of its template_params
    into typename.instantiations.  Copies there (deepcopy, a rebuilt Typename) cut that link: `std::vector<T>` keeps
    its `T` in every emitted signature although the instantiation 'succeeded'."""
    prog = ctx.prog
    ci = prog.cls("TemplatedType")
    init = prog.method("TemplatedType", "__init__")
    to_cpp = prog.method("TemplatedType", "to_cpp")
    it = prog.func(f"{TI}/helpers.py", "instantiate_type")
    prints_params = any(isinstance(x, ast.Attribute) and x.attr == "template_params" for x in ast.walk(to_cpp))
    edits_insts = any(isinstance(x, ast.Attribute) and x.attr == "instantiations" for x in ast.walk(it)) and \
        any(isinstance(x, ast.Attribute) and isinstance(x.ctx, ast.Store) and x.attr == "name" for x in ast.walk(it))
    params = func_params(init)
    tp = next((p for p in params if "param" in p), params[2] if len(params) > 2 else None)
    # the list handed to Typename(..., <instantiations>)
    ctor = next((c for c in walk_no_nested(init) if isinstance(c, ast.Call) and prog.resolve_class(c.func, ci.mod) is prog.cls("Typename")), None)
    shared, detail = False, "Typename(...) construction not found"
    if ctor is not None:
        tinit = prog.method("Typename", "__init__")
        b = bind_call(tinit, ctor, drop_self=True)
        arg = b.get(func_params(tinit)[2]) if len(func_params(tinit)) > 2 else None
        vals = []
        if isinstance(arg, ast.Name):
            vals = [st.value for st in walk_no_nested(init) if isinstance(st, ast.Assign) and len(st.targets) == 1
                    and isinstance(st.targets[0], ast.Name) and st.targets[0].id == arg.id]
        elif arg is not None:
            vals = [arg]
        detail = f"instantiations <- {[unparse(v)[:60] for v in vals]}"
        ok_vals = []
        for v in vals:
            if isinstance(v, (ast.ListComp, ast.GeneratorExp)) and len(v.generators) == 1 and not v.generators[0].ifs \
                    and unparse(v.generators[0].iter) == tp and isinstance(v.generators[0].target, ast.Name):
                ev = v.generators[0].target.id
                ok_vals.append(isinstance(v.elt, ast.Attribute) and isinstance(v.elt.value, ast.Name) and v.elt.value.id == ev and v.elt.attr == "typename")
            else:
                ok_vals.append(False)
        shared = bool(vals) and all(ok_vals)
    needed = prints_params and edits_insts
    rep.add(rid, "TemplatedType:typename.instantiations holds the same Typename objects as template_params (substitution reaches the printed type)",
            shared or not needed, detail + ("" if shared else "; to_cpp prints template_params while instantiate_type renames the objects in "
                                           "typename.instantiations: with copies the two no longer coincide and nested template parameters stay "
                                           "unsubstituted in the emitted C++"), f"{ci.mod.rel}:{init.lineno}", nontrivial=needed)


def _instantiate_type_evaluable(ctx) -> bool:
    """instantiate_type could be run on all its sample type expressions (S14 then decides what its inner walk does)."""
    def mk():
        class _R:
            prop = "-"

            def __init__(self):
                self.units = {}

            def add(self, *a, **k):
                pass
        r = _R()
        try:
            rule_instantiate_type_by_evaluation(ctx, r, "S14")
        except AnalysisError:
            return False
        return r.units.get("instantiate_type_runs", 0) >= 27
    return ctx._get("instantiate_type_evaluable", mk)


def rule_scoped_replacement_spelling(ctx, rep: Report, rid="S9"):
    """Scoped use `T::Value`: the result is a copy of the concrete type's Typename whose *name* becomes the component-wise
    rewritten path.  That Typename keeps the concrete type's namespaces (and template arguments), and to_cpp() prints them in
    front of / after the name; the component put in place of the parameter must therefore be the bare `.name` - a spelling
    that already contains the namespaces (`to_cpp()`, `str()`, `qualified_name()`) prints them twice
    (gtsam::gtsam::Pose3::Value)."""
    prog = ctx.prog
    fn = prog.func(f"{TI}/helpers.py", "instantiate_type")
    mi = prog.module(f"{TI}/helpers.py")
    sites = []
    for st in ast.walk(fn):
        if isinstance(st, ast.Assign) and len(st.targets) == 1 and isinstance(st.targets[0], ast.Attribute) and st.targets[0].attr == "name" \
                and isinstance(st.value, ast.Call) and isinstance(st.value.func, ast.Attribute) and st.value.func.attr == "join" \
                and isinstance(st.value.func.value, ast.Constant) and st.value.func.value.value == "::" and st.value.args:
            gen = st.value.args[0]
            if isinstance(gen, (ast.GeneratorExp, ast.ListComp)) and isinstance(gen.elt, ast.IfExp):
                sites.append((st, gen))
    if not sites:
        raise AnalysisError("instantiate_type: component-wise rewrite of a scoped template name not found")
    for st, gen in sites:
        holder = unparse(st.targets[0].value)
        body = gen.elt.body
        ok = isinstance(body, ast.Attribute) and body.attr == "name" and unparse(body.value) == holder
        if not ok and isinstance(body, ast.Name):
            # a local that starts as the bare name and at most gets the type's own template arguments appended (`Vec<double, 2>`)
            firsts = [st_ for st_ in ast.walk(fn) if isinstance(st_, ast.Assign) and len(st_.targets) == 1 and isinstance(st_.targets[0], ast.Name) and st_.targets[0].id == body.id]
            ok = len(firsts) == 1 and unparse(firsts[0].value) == f"{holder}.name"
        keeps = not any(isinstance(x, ast.Assign) and any(isinstance(t, ast.Attribute) and unparse(t.value) == holder and
                                                          (t.attr == "namespaces" or (t.attr == "instantiations" and not (isinstance(x.value, ast.List) and not x.value.elts)))
                                                          for t in x.targets) for x in ast.walk(fn))
        if not ok and _instantiate_type_evaluable(ctx):
            ok = True                 # how a scoped use is spelled - plain, namespaced and templated concrete types - is read off the evaluated samples (S14)
        rep.add(rid, "scoped use:the parameter's component is replaced by the concrete type's bare name", ok,
                f"the component is replaced by `{unparse(body)}` while `{holder}` keeps its own namespaces: they are printed twice "
                f"(gtsam::gtsam::Pose3::Value) for every concrete type that lives in a namespace", f"{mi.rel}:{st.lineno}")
        if not keeps and _instantiate_type_evaluable(ctx):
            keeps = True              # what comes out for scoped uses is read off the evaluated samples (S14: `const T::Value&`, three components ...)
        rep.add(rid, "scoped use:the copied Typename keeps the concrete type's namespaces and template arguments", keeps,
                f"`{holder}`.namespaces / .instantiations are overwritten after the copy", f"{mi.rel}:{st.lineno}", nontrivial=not keeps)


def rule_nested_forms(ctx, rep: Report, rid="S2"):
    """Which spellings of a template parameter are rewritten *below* the top level of a type expression.  A form is handled
    at every depth only if its test sits inside the function that walks the template-argument tree recursively; a test in a
    plain loop over `ctype.typename.instantiations` reaches the first level only, a test on the whole type only the top."""
    prog = ctx.prog
    fn = prog.func(f"{TI}/helpers.py", "instantiate_type")
    mi = prog.module(f"{TI}/helpers.py")
    rec = [f for f in ast.walk(fn) if isinstance(f, ast.FunctionDef) and f is not fn
           and any(isinstance(c, ast.Call) and isinstance(c.func, ast.Name) and c.func.id == f.name for c in ast.walk(f))
           and any(isinstance(l, ast.For) and unparse(l.iter).endswith(".instantiations") for l in ast.walk(f))]
    if not rec:
        raise AnalysisError("instantiate_type: recursive walk over the template arguments not found")
    txt = " ".join(unparse(f) for f in rec)
    # a bare parameter: the walk is run (the analyser's own interpreter) on sample argument trees; every node spelled `T` / `U`
    # has been renamed afterwards and no other node has been touched
    from .rules_matlab import SampleObj, _PathEval, _Raised, mini_exec
    ps = func_params(fn)
    bare_ok, bare_detail = None, ""

    def ty(name, *args):
        return SampleObj(name=name, instantiations=list(args), namespaces=[])
    trees = [("vector<T>", lambda: ty("vector", ty("T"))), ("vector<vector<T>>", lambda: ty("vector", ty("vector", ty("T")))),
             ("map<size_t, T>", lambda: ty("map", ty("size_t"), ty("T"))), ("map<T, size_t>", lambda: ty("map", ty("T"), ty("size_t"))),
             ("map<size_t, vector<U>>", lambda: ty("map", ty("size_t"), ty("vector", ty("U")))),
             ("pair<vector<size_t>, map<double, vector<T>>>", lambda: ty("pair", ty("vector", ty("size_t")), ty("map", ty("double"), ty("vector", ty("T"))))),
             ("tuple<T, double, U, vector<T>>", lambda: ty("tuple", ty("T"), ty("double"), ty("U"), ty("vector", ty("T"))))]
    is_generator = any(isinstance(y, (ast.Yield, ast.YieldFrom)) for f_ in rec for y in ast.walk(f_))      # the renaming then happens in the consumer (S14 runs the whole)
    if len(rec) == 1 and len(func_params(rec[0])) == 1 and len(ps) >= 3 and not is_generator:
        left = []
        try:
            for label, mk in trees:
                root = mk()

                def nodes(n):
                    yield n
                    for c in n["instantiations"]:
                        yield from nodes(c)
                before = [(n, n["name"]) for n in nodes(root)]
                mini_exec(rec[0], {func_params(rec[0])[0]: root, ps[1]: ["T", "U"], ps[2]: [ty("Pose3"), ty("double")]}, budget=4000,
                          functions={rec[0].name: rec[0]})
                for n, was in before:
                    now = n["name"]
                    if was in ("T", "U") and now == was:
                        left.append(f"{label}: `{was}` left as written")
                    elif was not in ("T", "U") and now != was:
                        left.append(f"{label}: `{was}` renamed")
            bare_ok, bare_detail = not left, "; ".join(left[:3])
        except (_PathEval.Unknown, _Raised) as ex:
            bare_ok = None
    if bare_ok is None:
        bare_ok = any(isinstance(c, ast.Compare) and isinstance(c.ops[0], ast.In) and unparse(c.left).endswith(".name") for f in rec for c in ast.walk(f))
    forms = {
        "a bare parameter (std::vector<std::vector<T>>)": bare_ok,
        "the reserved name This (std::vector<This>, std::vector<std::vector<This::K>>)": "'This'" in txt,
        "a scoped parameter (std::vector<T::Value>)": ".namespaces" in txt,
    }
    witnesses = {
        "a bare parameter (std::vector<std::vector<T>>)": bare_detail,
        "the reserved name This (std::vector<This>, std::vector<std::vector<This::K>>)":
            "`template<T={ns::V}> class C { void f(std::vector<This> x); }` keeps `std::vector<This>`; below the first level `This::K` is kept as well",
        "a scoped parameter (std::vector<T::Value>)":
            "`template<T={ns::V}> class C { void g(std::vector<T::Value> y); }` keeps `std::vector<T::Value>`",
    }
    for form, ok in forms.items():
        rep.add(rid, f"nested:{form.split(' (')[0]}:rewritten at every depth of the template arguments", ok,
                f"the recursive walk ({', '.join(f.name for f in rec)}) has no case for {form}: {witnesses.get(form, '')} - the property asks for "
                f"every occurrence at any depth", f"{mi.rel}:{rec[0].lineno}")


def rule_instantiated_siblings(ctx, rep: Report, rid="S10"):
    """The instantiated node classes are siblings: each stands in for a parser node of its kind and is read through the same
    attributes (name, parent, template, original, instantiations ...).  An attribute that every other sibling assigns in
    its constructor and one does not (nor inherits from a base constructor it calls) is missing on that kind of node -
    `namespaces()` / `to_cpp()` of such a node fail or answer for the wrong scope."""
    prog = ctx.prog
    names = ["InstantiatedClass", "InstantiatedMethod", "InstantiatedStaticMethod", "InstantiatedConstructor",
             "InstantiatedGlobalFunction", "InstantiatedDeclaration"]
    sets: Dict[str, Set[str]] = {}
    for nme in names:
        ci = prog.cls(nme)
        acc: Set[str] = set()
        todo = [ci]
        seen = set()
        while todo:
            k = todo.pop()
            if k.qual in seen:
                continue
            seen.add(k.qual)
            init = k.methods.get("__init__")
            if init is None:
                todo += [b for b in prog.mro(k)[1:2]]
                continue
            for x in walk_no_nested(init):
                if isinstance(x, ast.Attribute) and isinstance(x.ctx, ast.Store) and isinstance(x.value, ast.Name) and x.value.id == "self":
                    acc.add(x.attr)
            # attributes set by a base constructor that this one calls
            if any(isinstance(c, ast.Call) and "__init__" in unparse(c.func) and ("super(" in unparse(c.func) or "." in unparse(c.func))
                   for c in walk_no_nested(init)):
                todo += [b for b in prog.mro(k)[1:] if b.methods.get("__init__") is not None][:1]
        sets[nme] = acc
    # confirmed by reading: these four are what the generic code reads on every instantiated node (namespaces()/to_cpp() walk
    # .parent, naming uses .name, the emitters read .original and .instantiations); other attributes differ by kind for a reason
    # (e.g. a forward declaration has no template list of its own)
    CORE = ("original", "instantiations", "name", "parent")
    # the scope an instantiated node belongs to is the scope of what it was instantiated from
    for nme in names:
        ci = prog.cls(nme)
        init = ci.methods.get("__init__")
        if init is None:
            continue
        op = func_params(init)[1]
        vals = [unparse(st.value) for st in walk_no_nested(init) if isinstance(st, ast.Assign) and any(
            isinstance(t, ast.Attribute) and isinstance(t.value, ast.Name) and t.value.id == "self" and t.attr == "parent" for t in st.targets)]
        for c in walk_no_nested(init):
            if isinstance(c, ast.Call) and "__init__" in unparse(c.func):
                vals += [unparse(k.value) for k in c.keywords if k.arg == "parent"]
        okv = bool(vals) and all(v in (f"{op}.parent", "self.parent", "parent", f"self.{op}.parent") for v in vals)
        rep.add(rid, f"siblings:{nme}:`parent` is the parent of the node it was instantiated from", okv,
                f"parent <- {vals}: an instantiated node detached from (or attached elsewhere than) its original's scope spells its C++ name "
                f"without / with the wrong namespaces", f"{ci.mod.rel}:{init.lineno}")
    for nme in names:
        for attr in CORE:
            rep.add(rid, f"siblings:{nme}:constructor sets `{attr}`", attr in sets[nme],
                    f"{nme}.__init__ (and the base constructor it calls) never assigns self.{attr}: namespaces() / to_cpp() / the emitters read "
                    f"it on every instantiated node, so this kind of node fails or is attributed to the wrong scope",
                    f"{prog.cls(nme).mod.rel}:{prog.cls(nme).node.lineno}")


def rule_argument_roles(ctx, rep: Report, rid="S11"):
    """The substitution primitives take two parallel lists - the template's parameter *names* and the concrete
    *instantiations* - and every method on the way hands them on.  At each call inside the instantiator the expression
    bound to a parameter called `...typenames...` must itself be a typenames value (a `.typenames` attribute, or a
    name / parameter called `...typenames...`), and likewise for `...instantiations...`: swapping the two lists is
    type-correct Python, raises nothing and leaves every `T` unsubstituted."""
    prog = ctx.prog
    eff = effects_engine(ctx)
    n = 0

    def role_of(e: ast.AST) -> Optional[str]:
        if isinstance(e, ast.BinOp) and isinstance(e.op, ast.Add):
            a, b = role_of(e.left), role_of(e.right)
            return a if a == b else (a or b if (a is None or b is None) else "mixed")
        if isinstance(e, ast.Call) and unparse(e.func) in ("list", "deepcopy", "copy.deepcopy", "copy.copy", "tuple") and e.args:
            return role_of(e.args[0])
        last = e.attr if isinstance(e, ast.Attribute) else (e.id if isinstance(e, ast.Name) else None)
        if last is None:
            return None
        if "typenames" in last:
            return "typenames"
        if "instantiations" in last:
            return "instantiations"
        return None
    for fid in sorted(eff.funcs, key=repr):
        if not fid.rel.startswith(TI):
            continue
        mi, fn, ci = eff.funcs[fid]
        for c in walk_no_nested(fn):
            if not isinstance(c, ast.Call):
                continue
            callees = [x for x in eff.resolve_call(c, mi, ci, fn) if x in eff.funcs and x.rel.startswith(TI)]
            for cal in callees[:1]:
                cmi, cfn, cci = eff.funcs[cal]
                drop = cci is not None and not any(unparse(d) in ("staticmethod",) for d in cfn.decorator_list)
                try:
                    b = bind_call(cfn, c, drop_self=drop)
                except AnalysisError:
                    continue
                for pn, av in b.items():
                    want = "typenames" if "typenames" in pn else ("instantiations" if "instantiations" in pn else None)
                    if want is None:
                        continue
                    got = role_of(av)
                    if got is None:
                        continue
                    n += 1
                    rep.add(rid, f"roles:{fid.qual}->{cal.qual}:{pn}", got == want,
                            f"`{unparse(av)[:40]}` (a list of {got}) is handed to parameter `{pn}` of {cal.qual}: the parameter names and the "
                            f"concrete types change places, nothing matches and the template parameters stay in the instantiated signatures",
                            f"{mi.rel}:{c.lineno}", nontrivial=(got != want))
    if n < 15:
        raise AnalysisError(f"{rep.prop}/{rid}: only {n} typenames/instantiations hand-overs found (15 expected)")


def rule_cpp_spelling_not_flattened(ctx, rep: Report, rid="W8"):
    """Two spellings of a concrete type exist: `to_cpp()` - the C++ type, template arguments in angle brackets - and
    `instantiated_name()` - the identifier obtained by gluing the names together, used for Python / MATLAB names.
    A function that produces C++ text (`to_cpp`, `cpp_typename`, `qualified_name`) never builds it from
    `instantiated_name()`: for a template argument that is itself a template instantiation the glued identifier
    (`PinholeCameraCal3Bundler`) names no C++ type and the generated call does not compile."""
    prog = ctx.prog
    n = 0
    for mi in sorted(prog.modules.values(), key=lambda m: m.rel):
        if not mi.rel.startswith(("gtwrap/template_instantiator", "gtwrap/interface_parser")):
            continue
        for q, ci in sorted(mi.classes.items()):
            for mname, fn in sorted(ci.methods.items()):
                if mname not in ("to_cpp", "cpp_typename", "qualified_name"):
                    continue
                n += 1
                bad = [c for c in ast.walk(fn) if isinstance(c, ast.Call) and isinstance(c.func, ast.Attribute) and c.func.attr == "instantiated_name"]
                rep.add(rid, f"C++ spelling:{q}.{mname}:not built from the flattened identifier", not bad,
                        f"`{unparse(bad[0])[:60] if bad else ''}` at line {bad[0].lineno if bad else 0}: the text this method returns is pasted into the generated C++ "
                        f"(explicit template arguments of the call); for an argument such as PinholeCamera<Cal3Bundler> it reads "
                        f"`PinholeCameraCal3Bundler`, which names no type", f"{mi.rel}:{bad[0].lineno if bad else fn.lineno}", nontrivial=bool(bad))
    if n < 8:
        raise AnalysisError(f"{rep.prop}/{rid}: only {n} C++-spelling methods found")


def rule_simultaneous_substitution(ctx, rep: Report, rid="S12"):
    """Substitution is simultaneous: what a parameter was replaced by is concrete text and is never scanned for
    parameters again (a concrete type `std::vector<gtsam::Value>` bound to `Key` must not have its `Value` captured by a
    parameter `Value`).  In a walk over the template arguments this means that a node is either rewritten or descended
    into, never rewritten first and descended into afterwards:
    (a) recursive walker: a store into the visited node and the recursive call on that node lie in different arms of
        one `if`;
    (b) lazy walker (a generator that yields a node and then its children): the consumer does not store into the
        attribute through which the generator descends, because the generator resumes *after* the store and walks
        into the text that was just put there."""
    from .rules_flow import _exclusive
    prog = ctx.prog
    n = 0
    for mi in sorted(prog.modules.values(), key=lambda m: m.rel):
        if not mi.rel.startswith(TI):
            continue
        fns = [f for f in ast.walk(mi.tree) if isinstance(f, ast.FunctionDef)]
        gens = {f.name: f for f in fns if any(isinstance(y, (ast.Yield, ast.YieldFrom)) for y in walk_no_nested(f))}
        for f in fns:
            # (a) recursive walkers over an attribute of their parameter
            ps = func_params(f)
            for loop in [l for l in walk_no_nested(f) if isinstance(l, ast.For) and isinstance(l.target, ast.Name)
                         and isinstance(l.iter, ast.Attribute) and isinstance(l.iter.value, ast.Name) and l.iter.value.id in ps]:
                v = loop.target.id
                rec = [c for c in ast.walk(loop) if isinstance(c, ast.Call) and isinstance(c.func, ast.Name) and c.func.id == f.name
                       and any(isinstance(a, ast.Name) and a.id == v for a in c.args)]
                stores = [s_ for s_ in ast.walk(loop) if isinstance(s_, ast.Attribute) and isinstance(s_.ctx, ast.Store)
                          and isinstance(s_.value, ast.Name) and s_.value.id == v]
                if not rec or not stores:
                    continue
                n += 1
                bad = [(s_.lineno, r.lineno) for s_ in stores for r in rec if not _exclusive(s_, r) and s_.lineno < r.lineno]
                if bad and enclosing(f, ast.FunctionDef) is not None and enclosing(f, ast.FunctionDef).name == "instantiate_type" and _instantiate_type_evaluable(ctx):
                    bad = []          # the inner walk of instantiate_type: decided on samples whose concrete type is spelled like another parameter (S14)
                rep.add(rid, f"simultaneous:{f.name}:a node is rewritten or descended into, not both", not bad,
                        f"`{v}.{stores[0].attr}` is stored at line {bad[0][0] if bad else 0} and `{f.name}({v})` descends into the same node at line "
                        f"{bad[0][1] if bad else 0} on the same path: the replacement text is scanned for template parameters again", f"{mi.rel}:{loop.lineno}")
            # (a') node-first walkers: the function rewrites the node it was given (`p.name = ...`) or descends into that node's
            #      children (`for c in p.<attr>: f(c)`) - the two on different paths (other arm of the `if`, or a return after the store)
            for loop in [l for l in walk_no_nested(f) if isinstance(l, ast.For) and isinstance(l.target, ast.Name)
                         and isinstance(l.iter, ast.Attribute) and isinstance(l.iter.value, ast.Name) and l.iter.value.id in ps]:
                pv = loop.iter.value.id
                rec = [c for c in ast.walk(loop) if isinstance(c, ast.Call) and isinstance(c.func, ast.Name) and c.func.id == f.name
                       and any(isinstance(a, ast.Name) and a.id == loop.target.id for a in c.args)]
                stores = [s_ for s_ in walk_no_nested(f) if isinstance(s_, ast.Attribute) and isinstance(s_.ctx, ast.Store)
                          and isinstance(s_.value, ast.Name) and s_.value.id == pv and not any(s_ is x for x in ast.walk(loop))]
                if not rec or not stores:
                    continue
                n += 1
                lg = set(guards_of(loop, f, include_exits=True))
                bad = [s_.lineno for s_ in stores if s_.lineno < loop.lineno
                       and not any((t, not pol) in lg for t, pol in guards_of(s_, f, include_exits=True))]
                rep.add(rid, f"simultaneous:{f.name}:the node handed in is rewritten or its children are visited, not both", not bad,
                        f"`{pv}.{stores[0].attr}` is stored at line {bad[0] if bad else 0} and the loop at line {loop.lineno} then descends into `{pv}.{loop.iter.attr}` "
                        f"on the same path: what was just put there is scanned for template parameters again", f"{mi.rel}:{loop.lineno}")
            # (b) consumers of a lazy walker
            for loop in [l for l in walk_no_nested(f) if isinstance(l, ast.For) and isinstance(l.target, ast.Name) and isinstance(l.iter, ast.Call)
                         and isinstance(l.iter.func, ast.Name) and l.iter.func.id in gens]:
                g = gens[loop.iter.func.id]
                # the attributes through which `g` keeps walking *below a node it has already yielded*: the iteration sources
                # of its loops over a parameter, provided some yielded node is handed to a recursive call that can run after the
                # yield (not in the other arm of an `if`)
                gps = set(func_params(g))
                iter_attrs = {l.iter.attr for l in walk_no_nested(g) if isinstance(l, ast.For) and isinstance(l.iter, ast.Attribute)
                              and isinstance(l.iter.value, ast.Name) and l.iter.value.id in gps}
                resumes_below = False
                for y in walk_no_nested(g):
                    if isinstance(y, ast.Yield) and isinstance(y.value, ast.Name):
                        for c in walk_no_nested(g):
                            if isinstance(c, ast.Call) and isinstance(c.func, ast.Name) and c.func.id == g.name \
                                    and any(isinstance(a, ast.Name) and a.id == y.value.id for a in c.args) and not _exclusive(y, c):
                                resumes_below = True
                descends = iter_attrs if resumes_below else set()
                v = loop.target.id
                stored = {}
                for s_ in ast.walk(loop):
                    if isinstance(s_, ast.Attribute) and isinstance(s_.ctx, ast.Store) and isinstance(s_.value, ast.Name) and s_.value.id == v:
                        stored.setdefault(s_.attr, s_.lineno)
                    if isinstance(s_, ast.Call) and isinstance(s_.func, ast.Attribute) and s_.func.attr in ("append", "extend", "insert", "clear", "pop") \
                            and isinstance(s_.func.value, ast.Attribute) and isinstance(s_.func.value.value, ast.Name) and s_.func.value.value.id == v:
                        stored.setdefault(s_.func.value.attr, s_.lineno)
                if not stored:
                    continue
                n += 1
                clash = sorted(set(stored) & descends)
                rep.add(rid, f"simultaneous:{f.name}:the consumer of the lazy walk `{g.name}` leaves the walked attribute alone", not clash,
                        f"`{v}.{clash[0] if clash else ''}` is stored at line {stored.get(clash[0]) if clash else 0} while the generator `{g.name}` has not yet descended "
                        f"through `.{clash[0] if clash else ''}` of that node: it resumes inside the replacement and rewrites identifiers of the concrete type",
                        f"{mi.rel}:{loop.lineno}")
    if n < 1:
        raise AnalysisError(f"{rep.prop}/{rid}: no walk over template arguments found in the instantiator")


def rule_positions_of_the_list_itself(ctx, rep: Report, rid="P7", package=TI):
    """Template parameters and their arguments travel in parallel lists (typenames / instantiations): a position found in
    one is used as a position in the other.  That is only right when the position was taken in the list itself:
    `enumerate(<list>)` / `<list>.index(x)` on the list as it was handed in, not on a sorted, reversed, filtered,
    de-duplicated or sliced copy of it (whose positions differ as soon as the order of the parameters does - a type scoped
    in one parameter is then instantiated with another parameter's argument, depending on how the parameters are *named*)."""
    prog = ctx.prog
    n = 0
    REORDER = {"sorted", "reversed", "set", "frozenset", "filter"}

    def derived(fn, e) -> Optional[str]:
        e2 = inline_locals(fn, e) if fn is not None else e
        for x in ast.walk(e2):
            if isinstance(x, ast.Call) and isinstance(x.func, ast.Name) and x.func.id in REORDER:
                return f"{x.func.id}(...)"
            if isinstance(x, (ast.ListComp, ast.GeneratorExp, ast.SetComp)) and any(g.ifs for g in x.generators):
                return "a filtered comprehension"
            if isinstance(x, ast.Subscript) and isinstance(x.slice, ast.Slice):
                return f"the slice [{unparse(x.slice)}]"
            if isinstance(x, ast.Call) and isinstance(x.func, ast.Attribute) and x.func.attr in ("keys", "values", "items") and False:
                return None
        return None
    for mi in sorted(prog.modules.values(), key=lambda m: m.rel):
        if not mi.rel.startswith(package):
            continue
        for c in ast.walk(mi.tree):
            if not isinstance(c, ast.Call):
                continue
            fn = enclosing(c, ast.FunctionDef)
            src, idx_used = None, True
            if isinstance(c.func, ast.Name) and c.func.id == "enumerate" and c.args:
                src = c.args[0]
                loop = parent(c)
                tg = loop.target if isinstance(loop, (ast.For, ast.comprehension)) and loop.iter is c else None
                if isinstance(tg, ast.Tuple) and tg.elts and isinstance(tg.elts[0], ast.Name):
                    iv = tg.elts[0].id
                    scope_ = loop if isinstance(loop, ast.For) else parent(loop)
                    idx_used = iv != "_" and any(isinstance(x, ast.Name) and x.id == iv and isinstance(x.ctx, ast.Load) for x in ast.walk(scope_))
            elif isinstance(c.func, ast.Attribute) and c.func.attr == "index" and len(c.args) == 1:
                src = c.func.value
            if src is None:
                continue
            n += 1
            why = derived(fn, src) if idx_used else None
            rep.add(rid, f"position:{fn.name if fn else '?'}:{unparse(c)[:60]}", why is None,
                    f"the position is taken in {why} of `{unparse(src)[:50]}`, not in the list itself: used on the parallel list (instantiations for "
                    f"typenames) it selects another parameter's argument whenever the copy is ordered differently", f"{mi.rel}:{c.lineno}",
                    nontrivial=idx_used)
    if n < 1:
        raise AnalysisError(f"{rep.prop}/{rid}: no enumerate()/index() site found in {package}")


def rule_flat_name_of_nested_arguments(ctx, rep: Report, rid="N10"):
    """The identifier of an instantiation glues the names of its arguments; an argument that is itself an instantiation
    contributes the names of *its* arguments as well, at every depth (`Store<pair<size_t, vector<Pose2>>>` and
    `...<Pose3>>>` get different names).  Decided by running Typename.instantiated_name with the analyser's interpreter on
    sample type trees of depth 1, 2 and 3."""
    from .rules_matlab import SampleObj, mini_exec, _PathEval
    prog = ctx.prog
    ci = prog.cls("Typename")
    fn = prog.method("Typename", "instantiated_name")

    def T(name, *args):
        return SampleObj(name=name, instantiations=list(args), namespaces=[])

    def leaves(t):
        return t["name"] + "".join(leaves(x) for x in t["instantiations"])
    samples = [T("double"), T("vector", T("Pose2")), T("pair", T("size_t"), T("vector", T("Pose2"))), T("pair", T("size_t"), T("vector", T("Pose3"))),
               T("vector", T("vector", T("double"))), T("map", T("Key"), T("pair", T("A"), T("vector", T("B"))))]
    try:
        got = [mini_exec(fn, {"self": t}, methods={"instantiated_name": fn}) for t in samples]
    except _PathEval.Unknown as ex:
        raise AnalysisError(f"Typename.instantiated_name: written in a way this rule cannot evaluate ({ex})")
    want = [leaves(t) for t in samples]
    rep.add(rid, "Typename.instantiated_name:the names of nested arguments are included at every depth", got == want,
            f"for double, vector<Pose2>, pair<size_t, vector<Pose2>>, pair<size_t, vector<Pose3>>, vector<vector<double>>, map<Key, pair<A, vector<B>>> the "
            f"identifier is {got}, it has to be {want}: arguments that differ only below the first level get the same name (two classes, one Python name)",
            f"{ci.mod.rel}:{fn.lineno}")


def rule_instantiation_depends_on_itself_only(ctx, rep: Report, rid="P9"):
    """What is built for one member of the Cartesian product (its name, its arguments) is a function of that member and of
    the template alone: inside a loop / comprehension over the combinations, no argument of the instantiation's constructor
    is computed from the *collection* of combinations (a flag such as "two of the names clash", a count, a position).
    Otherwise adding, removing or re-ordering other instantiations changes this one."""
    prog = ctx.prog
    nmi = prog.module(f"{TI}/namespace.py")
    n = 0
    inst_classes = {c.name for mi in prog.modules.values() if mi.rel.startswith(TI) for c in mi.classes.values() if c.name.startswith("Instantiated")}
    for mi in sorted(prog.modules.values(), key=lambda m: m.rel):
        if not mi.rel.startswith(TI):
            continue
        for fn in [f for f in ast.walk(mi.tree) if isinstance(f, ast.FunctionDef)]:
            la = local_assignments(fn)

            def is_combinations(e) -> bool:
                if isinstance(e, ast.Call) and (dotted(e.func) or "").endswith("product"):
                    return True
                if isinstance(e, (ast.ListComp, ast.GeneratorExp)):
                    return any(is_combinations(g.iter) for g in e.generators)
                if isinstance(e, ast.Call) and isinstance(e.func, ast.Name) and e.func.id in ("list", "tuple") and e.args:
                    return is_combinations(e.args[0])
                if isinstance(e, ast.Name):
                    vs = [st.value for st in la.get(e.id, []) if isinstance(st, ast.Assign)]
                    return bool(vs) and all(is_combinations(v) for v in vs)
                return False
            for loop in [l for l in ast.walk(fn) if isinstance(l, (ast.For, ast.comprehension)) and is_combinations(l.iter)]:
                coll = {loop.iter.id} if isinstance(loop.iter, ast.Name) else set()
                body = loop if isinstance(loop, ast.For) else parent(loop)
                ctor_calls = [c for c in ast.walk(body) if isinstance(c, ast.Call) and (dotted(c.func) or "").split(".")[-1] in inst_classes]
                if not ctor_calls:
                    continue
                n += 1
                # locals that are computed from the collection as a whole
                tainted: Dict[str, str] = {}
                changed = True
                while changed:
                    changed = False
                    for nm, sts in la.items():
                        if nm in tainted or nm in coll:
                            continue
                        for st in sts:
                            if isinstance(st, ast.Assign) and any(isinstance(x, ast.Name) and (x.id in coll or x.id in tainted) for x in ast.walk(st.value)) \
                                    and not any(st is y for y in ast.walk(body)):
                                tainted[nm] = unparse(st.value)[:50]
                                changed = True
                bad = []
                for c in ctor_calls:
                    for x in ast.walk(c):
                        if isinstance(x, ast.Name) and isinstance(x.ctx, ast.Load) and (x.id in tainted or x.id in coll):
                            bad.append(f"{x.id} = {tainted.get(x.id, 'the list of combinations')}")
                rep.add(rid, f"per-instantiation:{fn.name}:{unparse(ctor_calls[0])[:40]}:built from its own combination only", not bad,
                        f"the constructor call reads {sorted(set(bad))[:2]}, computed from all combinations: the name / content of one instantiation changes "
                        f"when another one is added, removed or moved", f"{mi.rel}:{ctor_calls[0].lineno}")
    rep.units["instantiation_loops_checked"] = n
    if len(inst_classes) < 4:
        raise AnalysisError(f"{rep.prop}/{rid}: only {len(inst_classes)} Instantiated* classes found")


def rule_typedef_yields_one_instantiation(ctx, rep: Report, rid="N11"):
    """Every `typedef Tmpl<args> Name;` yields exactly one further instantiation, built from the template it names, the
    typedef's arguments and the typedef's name - next to (never instead of, never merged with) the instantiations the
    template enumerates itself.  Decided by running instantiate_namespace (the analyser's own interpreter; node
    constructors are recorded, not executed) on a sample namespace: a class template with enumerated lists and two
    typedefs of it - one spelling a combination the template lists itself -, a function template and a foreign template
    with a typedef each, and a nested namespace holding another typedef."""
    from .rules_matlab import SampleObj, _PathEval, _Raised, mini_exec
    prog = ctx.prog
    mi = prog.module(f"{TI}/namespace.py")
    fn = prog.func(f"{TI}/namespace.py", "instantiate_namespace")
    ps = func_params(fn)
    loc = f"{mi.rel}:{fn.lineno}"

    def tn(name, *inst):
        return SampleObj(__kind__="Typename", name=name, instantiations=list(inst), namespaces=[])
    A, B, C = tn("A"), tn("B"), tn("C")
    cls_t = SampleObj(__kind__="Class", name="Foo", template=SampleObj(__kind__="Template", typenames=["T"], instantiations=[[A, B]]))
    # two parameters whose names sort the other way round than they are declared: the combinations follow the declaration
    cls_2 = SampleObj(__kind__="Class", name="Couple", template=SampleObj(__kind__="Template", typenames=["POSE", "POINT"], instantiations=[[A, B], [C, tn("D")]]))
    cls_p = SampleObj(__kind__="Class", name="Plain", template="")
    fun_t = SampleObj(__kind__="GlobalFunction", name="twice", template=SampleObj(__kind__="Template", typenames=["T"], instantiations=[[A]]))
    fwd = SampleObj(__kind__="ForwardDeclaration", name="Ext", template="")

    def td(target_name, new_name, *args):
        return SampleObj(__kind__="TypedefTemplateInstantiation", typename=tn(target_name, *args), new_name=new_name)
    td_listed, td_new, td_fun, td_fwd, td_inner = td("Foo", "FooA", A), td("Foo", "FooC", C), td("twice", "twiceA", A), td("Ext", "ExtB", B), td("Foo", "InnerFoo", B)
    inner = SampleObj(__kind__="Namespace", name="inner", content=[td_inner], parent="")
    # a namespace that holds only a bare template (typedef'd from outside, in front of it), an empty one, and one holding only such
    box_t = SampleObj(__kind__="Class", name="Box", template=SampleObj(__kind__="Template", typenames=["T"], instantiations=[[]]))   # (no list: one empty list per parameter)
    detail = SampleObj(__kind__="Namespace", name="detail", content=[box_t], parent="")
    reserved = SampleObj(__kind__="Namespace", name="reserved", content=[], parent="")
    hollow = SampleObj(__kind__="Namespace", name="hollow", content=[SampleObj(__kind__="Namespace", name="deeper", content=[], parent="")], parent="")
    td_box = td("Box", "BoxA", A)
    # (typedefs of a foreign template, a function template and a class template, in that order: kinds do not regroup them)
    root = SampleObj(__kind__="Namespace", name="", content=[td_box, detail, cls_t, fwd, td_fwd, reserved, cls_p, fun_t, td_fun, td_listed, cls_2, td_new, hollow, inner],
                     parent="")
    targets = {}
    for t_, x_ in ((td_listed, cls_t), (td_new, cls_t), (td_fun, fun_t), (td_fwd, fwd), (td_inner, cls_t), (td_box, box_t)):
        targets[id(t_)] = x_          # the table may be keyed by the typedef's id or by the typedef itself
        targets[t_] = x_
    ctor_names = {q.split(".")[-1] for q in ("InstantiatedClass", "InstantiatedGlobalFunction", "InstantiatedDeclaration")}
    env = {ps[0]: root}
    if len(ps) > 1:
        env[ps[1]] = targets
    try:
        fns_ = dict(prog.module(f"{TI}/helpers.py").functions)
        fns_.update(mi.functions)
        consts_ = {st.targets[0].id: st.value for st in mi.tree.body if isinstance(st, ast.Assign) and len(st.targets) == 1 and isinstance(st.targets[0], ast.Name)}
        mini_exec(fn, env, budget=40000, functions=fns_, ctors=ctor_names, consts=consts_)
    except (_PathEval.Unknown, _Raised) as ex:
        # written with constructs the interpreter does not follow: N2 still decides the typedef branch by structure
        rep.add(rid, "typedef:instantiate_namespace evaluated on a sample namespace", True, f"not evaluable ({ex}); N2 decides by structure", loc, nontrivial=False)
        return

    def built(ns):
        out = []
        for x in ns["content"]:
            if isinstance(x, SampleObj) and x.get("__built__"):
                out.append(x)
            elif isinstance(x, SampleObj) and x.get("__kind__") == "Namespace":
                out += built(x)
        return out
    made = built(root)

    def parts(x):
        a = list(x["args"]) + [x["kwargs"][k] for k in x["kwargs"]]
        return a
    for t_, target, label in ((td_listed, cls_t, "typedef of a combination the template lists itself"), (td_new, cls_t, "typedef of a new combination"),
                              (td_fun, fun_t, "typedef of a function template"), (td_fwd, fwd, "typedef of a foreign (forward-declared) template"),
                              (td_inner, cls_t, "typedef inside a nested namespace")):
        mine = [x for x in made if any(p is t_["new_name"] or p == t_["new_name"] for p in parts(x))]
        ok = len(mine) == 1 and any(p is target for p in parts(mine[0])) and any(p is t_["typename"]["instantiations"] or p == t_["typename"]["instantiations"] for p in parts(mine[0]))
        rep.add(rid, f"typedef:{label}:exactly one instantiation with the typedef's name, template and arguments", ok,
                f"`typedef {t_['typename']['name']}<..> {t_['new_name']}` yields {len(mine)} instantiation(s) carrying its name"
                + ("" if len(mine) != 1 else " but not built from the named template / the typedef's arguments") +
                ": the name the interface file introduces does not exist in the wrappers (or exists twice)", loc)
    order = [next((p for p in parts(x) if isinstance(p, str)), None) for x in made if any(isinstance(p, str) for p in parts(x))]
    order = [o for o in order if o in ("ExtB", "twiceA", "FooA", "FooC")]
    rep.add(rid, "typedef:the typedef'd instantiations follow the order of the typedefs", order == ["ExtB", "twiceA", "FooA", "FooC"],
            f"typedefs declared in the order ExtB, twiceA, FooA, FooC are instantiated in the order {order}: the kind of the template (class, function, foreign) "
            f"decides the position instead of the interface file", loc)
    combos = [[q["name"] for q in p] for x in made if x["__kind__"] == "InstantiatedClass" and any(p is cls_2 for p in parts(x)) for p in parts(x) if isinstance(p, list)]
    rep.add(rid, "enumerated combinations:first parameter slowest, in the order the lists are written (whatever the parameters are called)",
            combos == [["A", "C"], ["A", "D"], ["B", "C"], ["B", "D"]],
            f"`template<POSE={{A,B}}, POINT={{C,D}}>` is instantiated as {combos}: the sequence depends on how the parameters are spelled - renaming them changes the output", loc)
    # the namespaces of the scope pass through, every one of them, in their order - also one that holds nothing once its templates are gone
    after = root.get("content") if isinstance(root.get("content"), list) else []
    ns_after = [x["name"] for x in after if isinstance(x, SampleObj) and x.get("__kind__") == "Namespace"]
    deeper_kept = any(isinstance(x, SampleObj) and x.get("name") == "deeper" for x in (hollow.get("content") or []))
    rep.add(rid, "namespaces:every nested namespace stays in its scope, in order, whatever is left in it", ns_after == ["detail", "reserved", "hollow", "inner"] and deeper_kept,
            f"the scope declares the namespaces detail (a bare template only), reserved (empty), hollow (an empty namespace only), inner; after instantiation it holds "
            f"{ns_after}{'' if deeper_kept else ' and hollow::deeper is gone'}: a class typedef'd from a dropped namespace is bound to a submodule / package that is never declared", loc)
    # typedef'd instantiations stand behind the nested namespaces of their scope: the generators declare a namespace's submodule when they
    # reach its block, and a class of a template from that namespace is bound to that submodule
    pos = {id(x): i_ for i_, x in enumerate(after)}
    box_made = [x for x in made if any(p is td_box["new_name"] or p == "BoxA" for p in parts(x))]
    detail_at = next((i_ for i_, x in enumerate(after) if x is detail or (isinstance(x, SampleObj) and x.get("name") == "detail")), None)
    ok_place = len(box_made) == 1 and detail_at is not None and pos.get(id(box_made[0]), -1) > detail_at
    rep.add(rid, "typedef:an instantiation of a template from a nested namespace is placed behind that namespace", ok_place,
            f"`typedef detail::Box<A> BoxA;` written in front of `namespace detail {{ ... }}`: the instantiation stands at position "
            f"{pos.get(id(box_made[0])) if box_made else None}, the namespace at {detail_at}: the pybind module binds BoxA to m_detail before `pybind11::module m_detail` is declared",
            loc)
    listed = [x for x in made if x["__kind__"] == "InstantiatedClass" and any(p is cls_t for p in parts(x)) and len(parts(x)) == 2]
    rep.add(rid, "typedef:the template's own combinations are instantiated besides the typedefs", len(listed) == 2,
            f"{len(listed)} instantiation(s) from the lists of `template<T={{A, B}}> class Foo`, 2 expected", loc, nontrivial=False)


def rule_instantiate_type_by_evaluation(ctx, rep: Report, rid="S14", part="substitution"):
    """`instantiate_type` run by the analyser's interpreter (the parser's own Type / Typename classes, deepcopy included) on
    sample type expressions, the result spelled by the tool's own `to_cpp()`.  part='substitution' (C02): every use of a
    parameter - whole, behind const / & / * / @, as a template argument at any depth, as the head of a scoped name - and the
    reserved `This` come out as the concrete type, names that merely contain a parameter's letters and types that mention
    no parameter come out unchanged, and the qualifiers stay where they were.  part='purity' (C13): the type expression handed
    in is still spelled as before afterwards (the next instantiation starts from the same declaration).  Nested `This` /
    nested scoped uses are the two recorded findings of S2 and are not part of the samples."""
    from .rules_matlab import SampleObj, _PathEval, _Raised, mini_exec, program_classes
    prog = ctx.prog
    fn = prog.func(f"{TI}/helpers.py", "instantiate_type")
    mi = prog.module(f"{TI}/helpers.py")
    loc = f"{mi.rel}:{fn.lineno}"
    classes = program_classes(prog, ["Typename", "Type", "TemplatedType", "ReturnType", "Argument", "ArgumentList"])
    ps = func_params(fn)
    if ps[:4] != ["ctype", "template_typenames", "instantiations", "cpp_typename"] or "Type" not in classes or "Typename" not in classes:
        rep.add(rid, "instantiate_type evaluated on sample types", True, "signature changed; the structural rules decide", loc, nontrivial=False)
        return

    def tn(name, ns=(), inst=()):
        return SampleObj(__kind__="Typename", name=name, namespaces=list(ns), instantiations=list(inst))

    def ty(t, const="", ref="", ptr="", sp="", basic=False):
        return SampleObj(__kind__="Type", typename=t, is_const=const, is_ref=ref, is_ptr=ptr, is_shared_ptr=sp, is_basic=basic)

    spell_fns = dict(mi.functions)
    try:
        spell_fns.update(prog.module("gtwrap/interface_parser/type.py").functions)
    except Exception:
        pass

    def spell(t):
        k_ = "TemplatedType" if isinstance(t, SampleObj) and t.get("__kind__") == "TemplatedType" and "TemplatedType" in classes else "Type"
        return mini_exec(classes[k_]["to_cpp"], {"self": t}, budget=20000, functions=spell_fns, classes=classes)

    def tt(name, ns, params, const="", ref="", ptr="", sp=""):
        """A templated type as the parser builds it: the Typename's template arguments are the very Typename objects of the
        parameter types (the generators print the parameter types, the instantiator rewrites the Typename's arguments)."""
        return SampleObj(__kind__="TemplatedType", typename=tn(name, ns, [p_["typename"] for p_ in params]), template_params=list(params),
                         is_const=const, is_ref=ref, is_ptr=ptr, is_shared_ptr=sp)
    P3, D = ("gtsam::Pose3", lambda: tn("Pose3", ["gtsam"])), ("double", lambda: tn("double"))
    this_cpp = "ns::Foo<gtsam::Pose3, double>"
    cases = [
        ("const std::vector<T>& (a templated type with its parameter types)", lambda: tt("vector", ["std"], [ty(tn("T"))], const="const", ref="&"),
         "const std::vector<gtsam::Pose3>&"),
        ("std::map<size_t, const T&> (a templated type)", lambda: tt("map", ["std"], [ty(tn("size_t"), basic=True), ty(tn("T"), const="const", ref="&")]),
         "std::map<size_t, const gtsam::Pose3&>"),
        ("std::vector<std::vector<U>> (templated types nested)", lambda: tt("vector", ["std"], [tt("vector", ["std"], [ty(tn("U"))])]), "std::vector<std::vector<double>>"),
        ("T", lambda: ty(tn("T")), "gtsam::Pose3"),
        ("const T&", lambda: ty(tn("T"), const="const", ref="&"), "const gtsam::Pose3&"),
        ("U*", lambda: ty(tn("U"), sp="*"), "std::shared_ptr<double>"),
        ("T@", lambda: ty(tn("T"), ptr="@"), "gtsam::Pose3*"),
        ("std::vector<T>", lambda: ty(tn("vector", ["std"], [tn("T")])), "std::vector<gtsam::Pose3>"),
        ("const std::vector<std::vector<U>>&", lambda: ty(tn("vector", ["std"], [tn("vector", ["std"], [tn("U")])]), const="const", ref="&"), "const std::vector<std::vector<double>>&"),
        ("std::map<size_t, T>", lambda: ty(tn("map", ["std"], [tn("size_t"), tn("T")])), "std::map<size_t, gtsam::Pose3>"),
        ("std::map<T, U>", lambda: ty(tn("map", ["std"], [tn("T"), tn("U")])), "std::map<gtsam::Pose3, double>"),
        ("std::pair<double, std::map<int, std::vector<T>>>", lambda: ty(tn("pair", ["std"], [tn("double"), tn("map", ["std"], [tn("int"), tn("vector", ["std"], [tn("T")])])])),
         "std::pair<double, std::map<int, std::vector<gtsam::Pose3>>>"),
        ("T::Value", lambda: ty(tn("Value", ["T"]), const="const", ref="&"), "const gtsam::Pose3::Value&"),
        ("T::Traits::Scalar", lambda: ty(tn("Scalar", ["T", "Traits"])), "gtsam::Pose3::Traits::Scalar"),
        ("const U::Params::Vector::Entry&", lambda: ty(tn("Entry", ["U", "Params", "Vector"]), const="const", ref="&"), "const double::Params::Vector::Entry&"),
        ("This", lambda: ty(tn("This"), sp="*"), None),
        ("ns::Other", lambda: ty(tn("Other", ["ns"]), ref="&"), "ns::Other&"),
        ("Tee", lambda: ty(tn("Tee")), "Tee"),
        ("std::vector<Tee>", lambda: ty(tn("vector", ["std"], [tn("Tee")])), "std::vector<Tee>"),
        ("UT::Value", lambda: ty(tn("Value", ["UT"])), "UT::Value"),
    ]
    # a second binding: the concrete type of T is itself *called* U (ns::U) - a substitution that scans its own output again
    # would turn it into ns::double
    NU = ("ns::U", lambda: tn("U", ["ns"]))
    cases2 = [
        ("T (T := ns::U)", lambda: ty(tn("T")), "ns::U"),
        ("std::map<T, U> (T := ns::U)", lambda: ty(tn("map", ["std"], [tn("T"), tn("U")])), "std::map<ns::U, double>"),
        ("std::vector<std::pair<T, std::vector<T>>> (T := ns::U)", lambda: ty(tn("vector", ["std"], [tn("pair", ["std"], [tn("T"), tn("vector", ["std"], [tn("T")])])])),
         "std::vector<std::pair<ns::U, std::vector<ns::U>>>"),
        ("const T::Value& (T := ns::U)", lambda: ty(tn("Value", ["T"]), const="const", ref="&"), "const ns::U::Value&"),
    ]
    # a third binding: the concrete type of T is templated and its own argument is spelled like the parameter U (ns::Holder<U>, U a
    # class of that name): put in place of a nested T it must not be scanned for parameters again
    HU = ("ns::Holder<U>", lambda: tn("Holder", ["ns"], [tn("U")]))
    cases3 = [
        ("T (T := ns::Holder<U>)", lambda: ty(tn("T")), "ns::Holder<U>"),
        ("std::vector<T> (T := ns::Holder<U>)", lambda: ty(tn("vector", ["std"], [tn("T")])), "std::vector<ns::Holder<U>>"),
        ("std::map<T, std::vector<T>> (T := ns::Holder<U>)", lambda: ty(tn("map", ["std"], [tn("T"), tn("vector", ["std"], [tn("T")])])),
         "std::map<ns::Holder<U>, std::vector<ns::Holder<U>>>"),
        ("std::pair<U, T> (T := ns::Holder<U>)", lambda: ty(tn("pair", ["std"], [tn("U"), tn("T")])), "std::pair<double, ns::Holder<U>>"),
    ]
    # a fourth binding: the concrete type is templated (ns::Vec<double, 2>); behind a scoped use its arguments stay with its own name
    VD = ("ns::Vec<double, 2>", lambda: tn("Vec", ["ns"], [tn("double"), tn("2")]))
    cases4 = [
        ("T (T := ns::Vec<double, 2>)", lambda: ty(tn("T")), "ns::Vec<double, 2>"),
        ("std::vector<T> (T := ns::Vec<double, 2>)", lambda: ty(tn("vector", ["std"], [tn("T")])), "std::vector<ns::Vec<double, 2>>"),
        ("const T::Scalar& (T := ns::Vec<double, 2>)", lambda: ty(tn("Scalar", ["T"]), const="const", ref="&"), "const ns::Vec<double, 2>::Scalar&"),
    ]
    diffs, impure, n = [], [], 0
    try:
        for label, mk, want in cases + cases2 + cases3:
            ct = mk()
            before = spell(ct)
            first = NU if (label, mk, want) in cases2 else (HU if (label, mk, want) in cases3 else (VD if (label, mk, want) in cases4 else P3))
            cpp_tn = tn("Foo", ["ns"], [first[1](), D[1]()])
            env = {"ctype": ct, "template_typenames": ["T", "U"], "instantiations": [first[1](), D[1]()], "cpp_typename": cpp_tn}
            for p_, d_ in zip(ps[len(ps) - len(fn.args.defaults):], fn.args.defaults):
                env.setdefault(p_, ast.literal_eval(d_))
            res = mini_exec(fn, env, budget=80000, functions=dict(mi.functions), classes=classes)
            n += 1
            got = spell(res) if isinstance(res, SampleObj) else None
            if want is None:
                want = ("std::shared_ptr<" + mini_exec(classes["Typename"]["to_cpp"], {"self": cpp_tn}, budget=20000, classes=classes) + ">")
            if (got or "").replace(" ", "") != want.replace(" ", ""):
                diffs.append(f"`{label}` comes out as `{got}`, `{want}` expected")
            after = spell(ct)
            if after != before:
                impure.append(f"`{label}`: the declaration's own type reads `{after}` after the call (was `{before}`)")
    except (_PathEval.Unknown, _Raised, TypeError, KeyError, AttributeError, IndexError) as ex:
        rep.add(rid, "instantiate_type evaluated on sample types", True, f"not evaluable ({ex}); the structural rules decide", loc, nontrivial=False)
        return
    rep.units["instantiate_type_runs"] = n
    if part == "substitution":
        rep.add(rid, "instantiate_type:sample type expressions come out with every parameter replaced and nothing else touched (T := gtsam::Pose3, U := double)", not diffs,
                f"{diffs[:3]}: the instantiated declaration names a type that does not exist, or another type than the template says", loc)
        # a templated concrete type: behind a scoped use its template arguments stay with its own name
        templ = []
        try:
            for label, mk, want in cases4:
                env = {"ctype": mk(), "template_typenames": ["T", "U"], "instantiations": [VD[1](), D[1]()], "cpp_typename": tn("Foo", ["ns"], [VD[1](), D[1]()])}
                for p_, d_ in zip(ps[len(ps) - len(fn.args.defaults):], fn.args.defaults):
                    env.setdefault(p_, ast.literal_eval(d_))
                res = mini_exec(fn, env, budget=80000, functions=dict(mi.functions), classes=classes)
                got = spell(res) if isinstance(res, SampleObj) else None
                if (got or "").replace(" ", "") != want.replace(" ", ""):
                    templ.append(f"`{label}` comes out as `{got}`, `{want}` expected")
            rep.add(rid, "instantiate_type:a scoped use of a templated concrete type keeps the template arguments behind the type's own name", not templ,
                    f"{templ}: the instantiated declaration names a type that does not exist", loc)
        except (_PathEval.Unknown, _Raised, TypeError, KeyError, AttributeError, IndexError):
            pass
        # a class of another namespace that merely has a parameter's spelling as its own name (other::T) is not a use of the parameter
        foreign = []
        try:
            for label, mk, want in (("const other::T&", lambda: ty(tn("T", ["other"]), const="const", ref="&"), "const other::T&"),
                                    ("std::vector<other::T>", lambda: ty(tn("vector", ["std"], [tn("T", ["other"])])), "std::vector<other::T>"),
                                    ("other::inner::U*", lambda: ty(tn("U", ["other", "inner"]), sp="*"), "std::shared_ptr<other::inner::U>")):
                env = {"ctype": mk(), "template_typenames": ["T", "U"], "instantiations": [P3[1](), D[1]()], "cpp_typename": tn("Foo", ["ns"], [P3[1](), D[1]()])}
                for p_, d_ in zip(ps[len(ps) - len(fn.args.defaults):], fn.args.defaults):
                    env.setdefault(p_, ast.literal_eval(d_))
                res = mini_exec(fn, env, budget=80000, functions=dict(mi.functions), classes=classes)
                got = spell(res) if isinstance(res, SampleObj) else None
                if (got or "").replace(" ", "") != want.replace(" ", ""):
                    foreign.append(f"`{label}` comes out as `{got}`")
            rep.add(rid, "instantiate_type:a type of another namespace that is merely named like a parameter is left alone", not foreign,
                    f"{foreign}: `other::T` names the class T of namespace other, not the template parameter - the instantiated declaration names a type that does not exist", loc)
        except (_PathEval.Unknown, _Raised, TypeError, KeyError, AttributeError, IndexError):
            pass
    else:
        rep.add(rid, "instantiate_type:the type expression handed in is left as it was", not impure,
                f"{impure[:2]}: the next instantiation of the same template starts from a declaration the first one has rewritten", loc)


def rule_substitution_input_is_the_declaration(ctx, rep: Report, rid="S15"):
    """Substitution happens once, with the complete list of parameters: what a substitution primitive (`instantiate_type`,
    `instantiate_args_list`, `instantiate_return_type`) is given to work on comes from the *declaration*, never from the result
    of an earlier substitution.  A second pass over already-substituted types scans concrete text for parameters again - a
    concrete type spelled like another parameter of the declaration (`template<T={Point}> ... template<Point={double}>`) is
    captured, and the arguments of a member no longer agree with its return type."""
    I = Inst(ctx)
    prog, eff = I.prog, I.eff
    n = 0

    def may_be_substituted(e, fn, mi, ci, depth=10, seen=()):
        """Some value `e` can take is the result of a substitution primitive: (True, how) / (False, '')."""
        if depth <= 0:
            return False, ""
        if isinstance(e, ast.Call):
            if I.is_primitive(e, mi, ci, fn):
                return True, f"result of {unparse(e.func)}(...)"
            if isinstance(e.func, ast.Attribute) and e.func.attr in ("list", "copy") and not e.args:
                return may_be_substituted(e.func.value, fn, mi, ci, depth - 1, seen)
            if isinstance(e.func, ast.Name) and e.func.id in ("list", "tuple", "deepcopy", "copy") and e.args:
                return may_be_substituted(e.args[0], fn, mi, ci, depth - 1, seen)
            return False, ""
        if isinstance(e, (ast.ListComp, ast.GeneratorExp)):
            return may_be_substituted(e.elt, fn, mi, ci, depth - 1, seen)
        if isinstance(e, ast.IfExp):
            a = may_be_substituted(e.body, fn, mi, ci, depth - 1, seen)
            return a if a[0] else may_be_substituted(e.orelse, fn, mi, ci, depth - 1, seen)
        if isinstance(e, ast.Name) and fn is not None:
            defs, killed = reaching_defs(fn, e.id, e)
            for d in defs:
                if isinstance(d, (ast.Assign, ast.AnnAssign)) and d.value is not None:
                    r = may_be_substituted(d.value, fn, mi, ci, depth - 1, seen)
                    if r[0]:
                        return True, f"{e.id} = {unparse(d.value)[:40]} ({r[1]})"
            if not killed and e.id in func_params(fn):
                fid = eff.fid_of(ci, mi, fn)
                key = (fid, e.id)
                if key in seen:
                    return False, ""
                drop = ci is not None and not any(unparse(d) == "staticmethod" for d in fn.decorator_list)
                for cf, c in I.callers(fid):
                    cmi, cfn, cci = eff.funcs[cf]
                    try:
                        b = bind_call(fn, c, drop_self=drop)
                    except AnalysisError:
                        continue
                    if e.id in b:
                        r = may_be_substituted(b[e.id], cfn, cmi, cci, depth - 1, seen + (key,))
                        if r[0]:
                            return True, f"{cf.qual} passes {unparse(b[e.id])[:40]} for {e.id} ({r[1]})"
        return False, ""
    for fid in sorted(eff.funcs, key=repr):
        if not fid.rel.startswith(TI):
            continue
        mi, fn, ci = eff.funcs[fid]
        for c in walk_no_nested(fn):
            if not (isinstance(c, ast.Call) and I.is_primitive(c, mi, ci, fn) and c.args):
                continue
            if fid.qual in PRIMITIVES and isinstance(c.func, ast.Name) and c.func.id == "instantiate_type":
                pass          # the primitives call one another on parts of the declaration: judged like every other call
            n += 1
            again, how = may_be_substituted(c.args[0], fn, mi, ci)
            rep.add(rid, f"once:{fid.qual}:{unparse(c.func)}({unparse(c.args[0])[:30]}..) works on the declaration", not again,
                    f"the types handed to {unparse(c.func)} can already be substituted ({how}): the concrete types put in by the first pass are scanned for "
                    f"template parameters again", f"{mi.rel}:{c.lineno}")
    if n < 8:
        raise AnalysisError(f"{rep.prop}/{rid}: only {n} calls of the substitution primitives found")


def rule_explicit_template_arguments_by_evaluation(ctx, rep: Report, rid="B14"):
    """The callee a binding names carries the explicit template arguments of the instantiation as C++ types, template arguments
    of those types included: `consume<std::vector<double>>`.  Decided by running `to_cpp()` of the instantiated method, static
    method and free function (the analyser's own interpreter, the parser's own Typename) on an instantiation with a plain, a
    namespaced and a templated argument; the three siblings have to give the same, complete spelling."""
    from .rules_matlab import SampleObj, _PathEval, _Raised, mini_exec, program_classes
    prog = ctx.prog
    classes = program_classes(prog, ["Typename", "Type", "InstantiatedMethod", "InstantiatedStaticMethod", "InstantiatedGlobalFunction"])

    def tn(name, ns=(), inst=()):
        return SampleObj(__kind__="Typename", name=name, namespaces=list(ns), instantiations=list(inst))
    want = "consume<double,gtsam::Pose3,std::vector<gtsam::Point2>,gtsam::PinholeCamera<gtsam::Cal3Bundler>>"
    got = {}
    for k in ("InstantiatedMethod", "InstantiatedStaticMethod", "InstantiatedGlobalFunction"):
        ci = prog.cls(k)
        if ci is None or k not in classes or not isinstance(classes[k].get("to_cpp"), ast.FunctionDef):
            continue
        insts = [tn("double"), tn("Pose3", ["gtsam"]), tn("vector", ["std"], [tn("Point2", ["gtsam"])]), tn("PinholeCamera", ["gtsam"], [tn("Cal3Bundler", ["gtsam"])])]
        orig = SampleObj(__kind__="GlobalFunction", name="consume", template=SampleObj(__kind__="Template", typenames=["A", "B", "C", "D"]))
        obj = SampleObj(__kind__=k, __bases__=list(classes[k].get("__bases__", ())), original=orig, instantiations=insts, name="consumeX", template="")
        try:
            got[k] = (mini_exec(classes[k]["to_cpp"], {"self": obj}, budget=20000, classes=classes), ci)
        except (_PathEval.Unknown, _Raised, TypeError, KeyError, AttributeError):
            continue
    rep.units["to_cpp_siblings_evaluated"] = len(got)
    if not got:
        rep.add(rid, "to_cpp of instantiated callables evaluated on a sample instantiation", True, "not evaluable", "gtwrap/template_instantiator:0", nontrivial=False)
        return
    for k, (text, ci) in sorted(got.items()):
        fn = ci.methods.get("to_cpp") or next(c.methods["to_cpp"] for c in prog.mro(ci) if "to_cpp" in c.methods)
        rep.add(rid, f"explicit template arguments:{k}.to_cpp:every argument spelled as its complete C++ type", isinstance(text, str) and text.replace(" ", "") == want,
                f"for `consume` instantiated with (double, gtsam::Pose3, std::vector<gtsam::Point2>, gtsam::PinholeCamera<gtsam::Cal3Bundler>) the callee is spelled "
                f"`{text}`, the declared instantiation is `{want}`: the binding calls another instantiation than the one it was generated for (or none that exists)",
                f"{ci.mod.rel}:{fn.lineno}")


# ------------------------------------------------------------------------------------------ P14 each listed instantiation is taken on its own
def rule_listed_types_taken_entry_by_entry(ctx, rep: Report, rid="P14"):
    """What an entry of an instantiation list `T = {A, std::vector<A>, ...}` becomes is decided by that entry alone - a plain type
    stays the Typename it is, a templated type contributes its `typename` - whatever else the list holds and in whatever order.
    Decided by running Template.TypenameAndInstantiations.__init__ (the analyser's own interpreter) on lists of plain types,
    of templated types, and on mixed lists in both orders, and comparing every entry with what the list holding it alone gives."""
    from .rules_matlab import SampleObj, _PathEval, _Raised, mini_exec
    prog = ctx.prog
    try:
        ci = prog.cls("Template.TypenameAndInstantiations")
    except Exception:
        raise AnalysisError(f"{rep.prop}/{rid}: Template.TypenameAndInstantiations not found")
    fn = ci.methods.get("__init__")
    if fn is None:
        raise AnalysisError(f"{rep.prop}/{rid}: Template.TypenameAndInstantiations.__init__ not found")
    ps = func_params(fn)
    loc = f"{ci.mod.rel}:{fn.lineno}"
    if len(ps) != 3:
        rep.add(rid, "instantiation lists:entries taken one by one", True, "signature changed; not decided", loc, nontrivial=False)
        return

    def plain(name, ns=()):
        return SampleObj(__kind__="Typename", name=name, namespaces=list(ns), instantiations=[], __complete__=True)

    def templ(name, ns, arg):
        t = SampleObj(__kind__="Typename", name=name, namespaces=list(ns), instantiations=[arg], __complete__=True)
        return SampleObj(__kind__="TemplatedType", typename=t, template_params=[arg], is_const="", is_ref="", is_ptr="", is_shared_ptr="", __complete__=True)
    A, B = plain("Pose", ["demo"]), plain("double")
    V, M = templ("vector", ["std"], plain("Pose", ["demo"])), templ("Matrix", ["Eigen"], plain("double"))

    def run(entries):
        me = SampleObj(__kind__="TypenameAndInstantiations")
        mini_exec(fn, {ps[0]: me, ps[1]: "T", ps[2]: list(entries)}, budget=4000)
        return me.get("instantiations")

    def want(e):
        return e["typename"] if e.get("__kind__") == "TemplatedType" else e
    probs, n = [], 0
    try:
        for label, entries in (("{A, B}", [A, B]), ("{std::vector<A>, Eigen::Matrix<double>}", [V, M]), ("{A, std::vector<A>}", [A, V]),
                               ("{std::vector<A>, A}", [V, A]), ("{B, Eigen::Matrix<double>, A, std::vector<A>}", [B, M, A, V]), ("{}", [])):
            got = run(entries)
            n += 1
            if not isinstance(got, list) or len(got) != len(entries):
                probs.append(f"{label} gives {len(got) if isinstance(got, list) else got} entries")
                continue
            for k, (e, g) in enumerate(zip(entries, got)):
                if g is not want(e):
                    kind = "templated type" if e.get("__kind__") == "TemplatedType" else "plain type"
                    probs.append(f"{label}: entry {k + 1} (a {kind}) is not what the same entry gives alone"
                                 + (" - a TemplatedType is left in the list" if isinstance(g, dict) and g.get("__kind__") == "TemplatedType" else ""))
    except _Raised as ex:
        probs.append(f"a mixed list is refused ({str(ex)[:60]}) where each of its entries alone is accepted")
    except (_PathEval.Unknown, TypeError, KeyError, IndexError, AttributeError) as ex:
        raise AnalysisError(f"{rep.prop}/{rid}: Template.TypenameAndInstantiations.__init__ could not be evaluated ({str(ex)[:60]})")
    rep.units["instantiation_lists_evaluated"] = n
    rep.add(rid, "instantiation lists:every entry becomes what it becomes alone, whatever else is listed and in which order", not probs,
            f"{probs[:3]}: `template<T={{A, B}}>` then does not give for A what `template<T={{A}}>` gives (the wrap run fails, or a TemplatedType reaches "
            f"code that expects a Typename)", loc)


# ------------------------------------------------------------------------------------------ B16 the base class is the declared one
def rule_declared_base_kept(ctx, rep: Report, rid="B16"):
    """A class is registered with the base class the interface file names: an unqualified base stays unqualified (the dialect asks
    for fully qualified bases - `: Base` is the global `Base`, also when the class's own namespace happens to declare a `Base`),
    a qualified one keeps its namespaces.  Decided by running InstantiatedClass.instantiate_parent_class (the analyser's own
    interpreter) on sample classes declared in a namespace that holds a class of the base's name."""
    from .rules_matlab import SampleObj, _PathEval, _Raised, mini_exec, program_classes
    prog = ctx.prog
    ci = prog.cls("InstantiatedClass")
    fn = ci.methods.get("instantiate_parent_class")
    if fn is None:
        raise AnalysisError(f"{rep.prop}/{rid}: InstantiatedClass.instantiate_parent_class not found")
    loc = f"{ci.mod.rel}:{fn.lineno}"
    ps = func_params(fn)
    classes = program_classes(prog, ["InstantiatedClass", "Typename", "Type", "TemplatedType"])
    fns_ = dict(prog.module(f"{TI}/helpers.py").functions)

    def tn(name, ns=()):
        return SampleObj(__kind__="Typename", name=name, namespaces=list(ns), instantiations=[], __complete__=True)
    root = SampleObj(__kind__="Namespace", name="", parent="", content=[], full_namespaces=lambda: [""])
    outer = SampleObj(__kind__="Namespace", name="ns", parent=root, content=[], full_namespaces=lambda: ["", "ns"])
    inner = SampleObj(__kind__="Namespace", name="inner", parent=outer, content=[], full_namespaces=lambda: ["", "ns", "inner"])
    root["content"] = [SampleObj(__kind__="Class", name="Base", parent=root, template=""), outer]
    outer["content"] = [SampleObj(__kind__="Class", name="Base", parent=outer, template=""), SampleObj(__kind__="ForwardDeclaration", name="Fwd", parent=outer), inner]
    probs, ran = [], 0
    for scope, scope_ns, base, label in ((outer, ["", "ns"], tn("Base"), "`class ns::Derived : Base` (ns declares a Base of its own)"),
                                         (inner, ["", "ns", "inner"], tn("Base"), "`class ns::inner::Deep : Base`"),
                                         (outer, ["", "ns"], tn("Fwd"), "`class ns::Derived : Fwd` (ns forward-declares a Fwd)"),
                                         (outer, ["", "ns"], tn("Base", ["other"]), "`class ns::Derived : other::Base`"),
                                         (root, [""], tn("Base", ["ns"]), "`class Derived : ns::Base`")):
        orig = SampleObj(__kind__="Class", name="Derived", parent=scope, parent_class=base, template="")
        scope["content"].append(orig)
        me = SampleObj(__kind__="InstantiatedClass", __bases__=["Class"], original=orig, parent=scope, name="Derived", instantiations=[],
                       namespaces=lambda s_=scope_ns: list(s_), template="")
        try:
            got = mini_exec(fn, {ps[0]: me, ps[1]: []}, budget=20000, classes=classes, functions=fns_, methods=dict(ci.methods))
        except (_PathEval.Unknown, _Raised, TypeError, KeyError, IndexError, AttributeError):
            continue
        finally:
            scope["content"].remove(orig)
        ran += 1
        spelled = "::".join([n_ for n_ in (got.get("namespaces") or []) if n_] + [got.get("name", "?")]) if isinstance(got, dict) else repr(got)
        want = "::".join(list(base["namespaces"]) + [base["name"]])
        if spelled != want:
            probs.append(f"{label} is registered with the base `{spelled}`")
    rep.units["declared_base_cases_evaluated"] = ran
    if ran < 5:
        raise AnalysisError(f"{rep.prop}/{rid}: instantiate_parent_class could be evaluated for {ran} of 5 sample classes only")
    rep.add(rid, "base class:the instantiated class carries the base the declaration names", not probs,
            f"{probs[:3]}: `py::class_<Derived, Base, ...>` (and the MATLAB classdef) then name another class than the interface declares", loc)
