"""Engine G: reconstruct the pyparsing grammar of gtwrap/interface_parser from its syntax tree.

An abstract interpreter over module- and class-level statements.  The result is a grammar IR
(GNode graph) on which nullable / FIRST / recursion / capture-scope / layout analyses run.
pyparsing itself is never imported; the combinator semantics modelled here are the documented
ones (DESIGN.md section 1, trusted base).
"""
from __future__ import annotations

import ast
import string
from typing import Dict, List, Optional, Set, Tuple

from .core import AnalysisError
from .prog import Program, ModuleInfo, unparse

PKG = "gtwrap.interface_parser"

# pyparsing names -------------------------------------------------------------------------
PP_STRINGS = {
    "alphas": string.ascii_letters,
    "nums": string.digits,
    "alphanums": string.ascii_letters + string.digits,
    "printables": "".join(c for c in string.printable if c not in string.whitespace),
    "hexnums": string.hexdigits,
}
UNARY = {"Optional": "Optional", "Opt": "Optional", "ZeroOrMore": "ZeroOrMore",
         "OneOrMore": "OneOrMore", "Group": "Group", "Suppress": "Suppress",
         "originalTextFor": "OriginalTextFor", "original_text_for": "OriginalTextFor",
         "Dict": "Group", "Located": "Group"}
NARY = {"Or": "Or", "MatchFirst": "MatchFirst", "And": "And", "Each": "Each"}
TERMINALS = {"Word": "Word", "CharsNotIn": "CharsNotIn", "QuotedString": "QuotedString",
             "nestedExpr": "NestedExpr", "nested_expr": "NestedExpr", "Char": "Word"}
# constructs whose matching depends on layout (white space / line structure / raw regex)
LAYOUT_SENSITIVE_CTORS = {"Regex", "White", "LineStart", "LineEnd", "SkipTo", "StringStart",
                          "WordStart", "WordEnd", "GoToColumn", "AtLineStart", "AtStringStart",
                          "IndentedBlock", "indentedBlock", "PrecededBy", "FollowedBy", "NotAny",
                          "CloseMatch", "CaselessLiteral", "CaselessKeyword", "restOfLine",
                          "rest_of_line", "lineEnd", "lineStart", "line_end", "line_start",
                          "Empty", "empty"}
LAYOUT_SENSITIVE_METHODS = {"leaveWhitespace", "leave_whitespace", "setWhitespaceChars",
                            "set_whitespace_chars", "setDefaultWhitespaceChars",
                            "set_default_whitespace_chars"}
# (parseWithTabs is not in this list: it only stops parseString from expanding tabs to column-dependent blanks; a tab is skipped
#  as white space either way - rule L8 *requires* it where the grammar copies text verbatim)
COMMENT_EXPRS = {"cppStyleComment", "cpp_style_comment", "cStyleComment", "c_style_comment",
                 "dblSlashComment", "dbl_slash_comment", "pythonStyleComment", "javaStyleComment"}
NOOP_METHODS = {"setName", "set_name", "setDebug", "set_debug", "streamline", "setBreak", "parseWithTabs", "parse_with_tabs"}


class GNode:
    _uid = 0

    def __init__(self, kind, children=None, text=None, attrs=None, src=("", 0)):
        GNode._uid += 1
        self.uid = GNode._uid
        self.origin = self.uid
        self.kind = kind
        self.children: List["GNode"] = list(children or [])
        self.text = text
        self.attrs = dict(attrs or {})
        self.name: Optional[str] = None
        self.action: Optional["LambdaVal"] = None
        self.extra_actions: List["LambdaVal"] = []
        self.src = src
        self.label: Optional[str] = None
        self.layout_flags: List[str] = []

    def copy(self, src):
        n = GNode(self.kind, self.children, self.text, self.attrs, src)
        n.origin = self.origin
        n.name = self.name
        n.action = self.action
        n.extra_actions = list(self.extra_actions)
        n.label = self.label
        n.layout_flags = list(self.layout_flags)
        if self.kind == "Forward" and not self.children:
            # pyparsing: copy of an undefined Forward wraps the original (stays in sync)
            n.children = [self]
            n.attrs["wraps_forward"] = True
        return n

    def describe(self):
        lab = self.label or ""
        nm = f'("{self.name}")' if self.name else ""
        if self.kind in ("Literal", "Keyword"):
            return f"{self.kind}({self.text!r}){nm}"
        return f"{lab + ':' if lab else ''}{self.kind}{nm}"

    def __repr__(self):
        return f"<G{self.uid} {self.describe()}>"


class LambdaVal:
    def __init__(self, node, mi: ModuleInfo, cls_qual: Optional[str]):
        self.node = node          # ast.Lambda or ast.FunctionDef
        self.mi = mi
        self.cls_qual = cls_qual


class ClassNS:
    def __init__(self, qual, env, outer_env):
        self.qual = qual
        self.env = env
        self.outer_env = outer_env


class PP:
    """A name imported from pyparsing."""
    def __init__(self, name):
        self.name = name


class PPModule:
    pass


class Opaque:
    def __init__(self, why=""):
        self.why = why


class PyFunc:
    def __init__(self, node, mi, cls_qual=None):
        self.node = node
        self.mi = mi
        self.cls_qual = cls_qual
        self.defaults = None
        self.kw_defaults = None
        self.def_env = None
        self.def_outer = None


class BoundMethod:
    def __init__(self, recv, attr):
        self.recv = recv
        self.attr = attr


class Event:
    def __init__(self, kind, **kw):
        self.kind = kind
        self.__dict__.update(kw)


def contains_gnode(v) -> bool:
    if isinstance(v, GNode):
        return True
    if isinstance(v, (list, tuple)):
        return any(contains_gnode(x) for x in v)
    return False


class Grammar:
    """Runs the interpreter over gtwrap/interface_parser and holds the IR + events."""

    def __init__(self, prog: Program):
        self.prog = prog
        self.envs: Dict[str, Dict[str, object]] = {}
        self.events: List[Event] = []
        self.order: List[str] = []
        self._running: Set[str] = set()
        self.nodes: List[GNode] = []
        init = f"{PKG}"
        if init not in prog.modules:
            raise AnalysisError("gtwrap/interface_parser/__init__.py vanished")
        self.run_module(init)
        # make sure every module of the package was interpreted (even if not imported)
        for name in sorted(prog.modules):
            if name.startswith(PKG + "."):
                self.run_module(name)

    # -------------------------------------------------------------------------- interpreter
    def mk(self, kind, children=None, text=None, attrs=None, src=("", 0)):
        n = GNode(kind, children, text, attrs, src)
        self.nodes.append(n)
        return n

    def run_module(self, name: str):
        if name in self.envs:
            return self.envs[name]
        if name in self._running:
            # circular import: expose what exists so far
            return self.envs.setdefault(name, {})
        if name not in self.prog.modules:
            raise AnalysisError(f"module {name} not found")
        self._running.add(name)
        mi = self.prog.modules[name]
        env: Dict[str, object] = {}
        self.envs[name] = env
        self.exec_block(mi.tree.body, env, None, mi, None, conditional=False)
        self._running.discard(name)
        self.order.append(name)
        return env

    def src(self, mi, node):
        return (mi.rel, getattr(node, "lineno", 0))

    def exec_block(self, body, env, outer_env, mi, cls_qual, conditional):
        for st in body:
            try:
                self.exec_stmt(st, env, outer_env, mi, cls_qual, conditional)
            except AnalysisError:
                raise
            except RecursionError:
                raise
            except Exception as e:  # analyser bug -> analysis error, never a silent pass
                raise AnalysisError(f"grammar interpreter failed at {mi.rel}:{getattr(st, 'lineno', 0)}: "
                                    f"{type(e).__name__}: {e}")

    def exec_stmt(self, st, env, outer_env, mi, cls_qual, conditional):
        if isinstance(st, ast.ImportFrom):
            mod = mi.abs_module(st.level, st.module)
            if mod == "pyparsing" or mod.startswith("pyparsing."):
                for a in st.names:
                    if a.name == "*":
                        raise AnalysisError(f"{mi.rel}: star import from pyparsing is not modelled")
                    env[a.asname or a.name] = PP(a.name)
            elif mod in self.prog.modules and mod.startswith(PKG):
                sub = self.run_module(mod)
                for a in st.names:
                    if a.name == "*":
                        for k, v in sub.items():
                            if not k.startswith("_"):
                                env[k] = v
                    elif a.name in sub:
                        env[a.asname or a.name] = sub[a.name]
                    elif f"{mod}.{a.name}" in self.prog.modules:
                        env[a.asname or a.name] = Opaque("module")
                    else:
                        raise AnalysisError(f"{mi.rel}:{st.lineno}: cannot import {a.name} from {mod}")
            else:
                for a in st.names:
                    env[a.asname or a.name] = Opaque(f"import {mod}.{a.name}")
        elif isinstance(st, ast.Import):
            for a in st.names:
                if a.name == "pyparsing":
                    env[a.asname or "pyparsing"] = PPModule()
                else:
                    env[(a.asname or a.name).split(".")[0]] = Opaque(f"import {a.name}")
        elif isinstance(st, ast.Assign):
            val = self.eval(st.value, env, outer_env, mi, cls_qual)
            for t in st.targets:
                self.assign(t, val, env, outer_env, mi, cls_qual, st, conditional)
        elif isinstance(st, ast.AnnAssign):
            if st.value is not None:
                val = self.eval(st.value, env, outer_env, mi, cls_qual)
                self.assign(st.target, val, env, outer_env, mi, cls_qual, st, conditional)
        elif isinstance(st, ast.AugAssign):
            cur = self.eval(st.target, env, outer_env, mi, cls_qual)
            val = self.eval(st.value, env, outer_env, mi, cls_qual)
            if isinstance(st.op, ast.LShift) and isinstance(cur, GNode):
                self.forward_assign(cur, val, mi, st)
            elif contains_gnode(cur) or contains_gnode(val):
                binop = ast.BinOp(left=st.target, op=st.op, right=st.value)
                ast.copy_location(binop, st)
                res = self.eval_binop(cur, st.op, val, mi, st)
                self.assign(st.target, res, env, outer_env, mi, cls_qual, st, conditional)
            else:
                self.assign(st.target, Opaque("augassign"), env, outer_env, mi, cls_qual, st, conditional)
        elif isinstance(st, ast.ClassDef):
            qual = (cls_qual + "." if cls_qual else "") + st.name
            cenv: Dict[str, object] = {}
            # class body scope: own names, then module globals (not enclosing class scope)
            mod_env = outer_env if outer_env is not None and cls_qual else env
            if cls_qual is None:
                mod_env = env
            self.exec_block(st.body, cenv, mod_env, mi, qual, conditional)
            ns = ClassNS(qual, cenv, mod_env)
            env[st.name] = ns
            lo, hi = st.lineno, getattr(st, "end_lineno", st.lineno)
            for k, v in cenv.items():
                if isinstance(v, GNode) and (v.label is None or lo <= v.src[1] <= hi):
                    v.label = f"{qual}.{k}"
        elif isinstance(st, (ast.FunctionDef, ast.AsyncFunctionDef)):
            pf = PyFunc(st, mi, cls_qual)
            # default values are evaluated when the def statement runs, in the defining scope
            try:
                pf.defaults = [self.eval(d, env, outer_env, mi, cls_qual) for d in st.args.defaults]
                pf.kw_defaults = [self.eval(d, env, outer_env, mi, cls_qual) if d is not None else None
                                  for d in st.args.kw_defaults]
            except AnalysisError:
                pf.defaults, pf.kw_defaults = None, None
            pf.def_env = env
            pf.def_outer = outer_env
            env[st.name] = pf
        elif isinstance(st, ast.Expr):
            if isinstance(st.value, ast.Constant):
                return
            self.eval(st.value, env, outer_env, mi, cls_qual, stmt=st, conditional=conditional)
        elif isinstance(st, ast.If):
            self.events.append(Event("if", mi=mi, node=st, test=unparse(st.test)))
            self.exec_block(st.body, env, outer_env, mi, cls_qual, True)
            self.exec_block(st.orelse, env, outer_env, mi, cls_qual, True)
        elif isinstance(st, (ast.Try,)):
            self.exec_block(st.body, env, outer_env, mi, cls_qual, True)
            for h in st.handlers:
                self.exec_block(h.body, env, outer_env, mi, cls_qual, True)
            self.exec_block(st.orelse, env, outer_env, mi, cls_qual, True)
            self.exec_block(st.finalbody, env, outer_env, mi, cls_qual, True)
        elif isinstance(st, ast.Pass):
            return
        elif isinstance(st, (ast.For, ast.While, ast.With)):
            # loops at module/class level could build grammar pieces we do not model
            for n in ast.walk(st):
                if isinstance(n, ast.Name) and isinstance(self.lookup(n.id, env, outer_env), (GNode, PP)):
                    raise AnalysisError(f"{mi.rel}:{st.lineno}: grammar built inside a "
                                        f"{type(st).__name__} statement is not modelled")
        elif isinstance(st, (ast.Delete, ast.Global, ast.Nonlocal, ast.Assert)):
            return
        else:
            raise AnalysisError(f"{mi.rel}:{st.lineno}: unmodelled statement {type(st).__name__}")

    def assign(self, target, val, env, outer_env, mi, cls_qual, st, conditional):
        if isinstance(target, ast.Name):
            env[target.id] = val
            if isinstance(val, GNode) and val.label is None and cls_qual is None:
                val.label = target.id
        elif isinstance(target, (ast.Tuple, ast.List)):
            if isinstance(val, (list, tuple)):
                if len(val) != len(target.elts):
                    raise AnalysisError(f"{mi.rel}:{st.lineno}: unpacking {len(val)} values into "
                                        f"{len(target.elts)} names")
                for t, v in zip(target.elts, val):
                    self.assign(t, v, env, outer_env, mi, cls_qual, st, conditional)
            else:
                for t in target.elts:
                    self.assign(t, Opaque("unpack"), env, outer_env, mi, cls_qual, st, conditional)
        elif isinstance(target, ast.Attribute):
            self.events.append(Event("setattr", target=unparse(target), mi=mi, node=st,
                                     conditional=conditional, value=val))
        elif isinstance(target, ast.Subscript):
            base = self.eval(target.value, env, outer_env, mi, cls_qual)
            if contains_gnode(base):
                raise AnalysisError(f"{mi.rel}:{st.lineno}: subscript store into grammar container")
        else:
            raise AnalysisError(f"{mi.rel}:{st.lineno}: unmodelled assignment target")

    def lookup(self, name, env, outer_env):
        if name in env:
            return env[name]
        if outer_env is not None and name in outer_env:
            return outer_env[name]
        return None

    def to_node(self, v, mi, node) -> GNode:
        if isinstance(v, GNode):
            return v
        if isinstance(v, str):
            return self.mk("Literal", text=v, src=self.src(mi, node))
        raise AnalysisError(f"{mi.rel}:{getattr(node, 'lineno', 0)}: expected a parser element, got "
                            f"{type(v).__name__} in {unparse(node)[:80]}")

    def forward_assign(self, fwd: GNode, val, mi, node):
        if fwd.kind != "Forward":
            raise AnalysisError(f"{mi.rel}:{node.lineno}: '<<' on a non-Forward element")
        target = fwd
        while target.attrs.get("wraps_forward"):
            target = target.children[0]
        target.children = [self.to_node(val, mi, node)]
        target.attrs["defined_at"] = self.src(mi, node)
        return fwd

    def eval_binop(self, l, op, r, mi, node):
        if isinstance(op, ast.Add):
            if isinstance(l, str) and isinstance(r, str):
                return l + r
            if isinstance(l, GNode) or isinstance(r, GNode):
                return self.mk("And", [self.to_node(l, mi, node), self.to_node(r, mi, node)],
                               src=self.src(mi, node))
            if isinstance(l, list) and isinstance(r, list):
                return l + r
        elif isinstance(op, ast.BitOr) and (isinstance(l, GNode) or isinstance(r, GNode)):
            return self.mk("MatchFirst", [self.to_node(l, mi, node), self.to_node(r, mi, node)],
                           src=self.src(mi, node))
        elif isinstance(op, ast.BitXor) and (isinstance(l, GNode) or isinstance(r, GNode)):
            return self.mk("Or", [self.to_node(l, mi, node), self.to_node(r, mi, node)],
                           src=self.src(mi, node))
        elif isinstance(op, ast.LShift) and isinstance(l, GNode):
            return self.forward_assign(l, r, mi, node)
        elif isinstance(op, ast.Mult) and (isinstance(l, GNode) or isinstance(r, GNode)):
            g = l if isinstance(l, GNode) else r
            return self.mk("OneOrMore", [g], attrs={"from_mult": True}, src=self.src(mi, node))
        elif isinstance(op, ast.Sub) and isinstance(l, GNode):
            return self.mk("LayoutSensitive", [self.to_node(l, mi, node), self.to_node(r, mi, node)],
                           attrs={"what": "'-' error-stop And"}, src=self.src(mi, node))
        elif isinstance(op, ast.BitAnd) and (isinstance(l, GNode) or isinstance(r, GNode)):
            return self.mk("Each", [self.to_node(l, mi, node), self.to_node(r, mi, node)],
                           src=self.src(mi, node))
        if contains_gnode(l) or contains_gnode(r):
            raise AnalysisError(f"{mi.rel}:{getattr(node, 'lineno', 0)}: unmodelled operator "
                                f"{type(op).__name__} on parser elements")
        return Opaque("binop")

    def eval(self, e, env, outer_env, mi, cls_qual, stmt=None, conditional=False):
        ev = lambda x: self.eval(x, env, outer_env, mi, cls_qual)  # noqa: E731
        if isinstance(e, ast.Constant):
            return e.value
        if isinstance(e, ast.Name):
            v = self.lookup(e.id, env, outer_env)
            if v is None:
                if e.id in ("map", "list", "tuple", "str", "len", "range", "sorted", "reversed",
                            "isinstance", "print", "set", "dict", "filter", "zip", "enumerate"):
                    return Opaque("builtin:" + e.id)
                return Opaque("name:" + e.id)
            return v
        if isinstance(e, ast.Attribute):
            base = ev(e.value)
            if isinstance(base, ClassNS):
                if e.attr in base.env:
                    return base.env[e.attr]
                return Opaque(f"{base.qual}.{e.attr}")
            if isinstance(base, PPModule):
                return PP(e.attr)
            if isinstance(base, PP):
                return PP(base.name + "." + e.attr)
            if isinstance(base, GNode):
                return BoundMethod(base, e.attr)
            return Opaque("attr")
        if isinstance(e, ast.Lambda):
            return LambdaVal(e, mi, cls_qual)
        if isinstance(e, (ast.List, ast.Tuple)):
            vals = []
            for x in e.elts:
                if isinstance(x, ast.Starred):
                    sv = ev(x.value)
                    if isinstance(sv, (list, tuple)):
                        vals.extend(sv)
                    else:
                        vals.append(Opaque("starred"))
                else:
                    vals.append(ev(x))
            return vals if isinstance(e, ast.List) else tuple(vals)
        if isinstance(e, ast.BinOp):
            return self.eval_binop(ev(e.left), e.op, ev(e.right), mi, e)
        if isinstance(e, ast.Call):
            return self.eval_call(e, env, outer_env, mi, cls_qual, stmt, conditional)
        if isinstance(e, ast.JoinedStr):
            return Opaque("fstring")
        if isinstance(e, ast.IfExp):
            a, b = ev(e.body), ev(e.orelse)
            if contains_gnode(a) or contains_gnode(b):
                raise AnalysisError(f"{mi.rel}:{e.lineno}: conditional grammar construction not modelled")
            return Opaque("ifexp")
        if isinstance(e, (ast.ListComp, ast.GeneratorExp, ast.SetComp, ast.DictComp)):
            # comprehension over constant strings building elements, e.g. [Keyword(k) for k in [...]]
            return self.eval_comp(e, env, outer_env, mi, cls_qual)
        if isinstance(e, ast.Subscript):
            base = ev(e.value)
            if isinstance(base, (list, tuple, str)) and isinstance(e.slice, ast.Constant):
                try:
                    return base[e.slice.value]
                except Exception:
                    return Opaque("subscript")
            if isinstance(base, (list, tuple, str)) and isinstance(e.slice, ast.Slice):
                def cv(x):
                    if x is None:
                        return None
                    v = ev(x)
                    if isinstance(v, int):
                        return v
                    raise AnalysisError(f"{mi.rel}:{e.lineno}: non-constant slice bound")
                return base[slice(cv(e.slice.lower), cv(e.slice.upper), cv(e.slice.step))]
            if isinstance(base, (list, tuple, str)) and isinstance(e.slice, ast.UnaryOp) and \
                    isinstance(e.slice.op, ast.USub) and isinstance(e.slice.operand, ast.Constant):
                try:
                    return base[-e.slice.operand.value]
                except Exception:
                    return Opaque("subscript")
            if contains_gnode(base):
                raise AnalysisError(f"{mi.rel}:{e.lineno}: subscript on parser elements not modelled")
            return Opaque("subscript")
        if isinstance(e, (ast.Compare, ast.BoolOp, ast.UnaryOp, ast.Dict, ast.Set)):
            for n in ast.walk(e):
                if isinstance(n, ast.Name) and isinstance(self.lookup(n.id, env, outer_env), GNode):
                    if isinstance(e, ast.UnaryOp) and isinstance(e.op, ast.Invert):
                        return self.mk("LayoutSensitive", [ev(e.operand)], attrs={"what": "NotAny (~)"},
                                       src=self.src(mi, e))
                    raise AnalysisError(f"{mi.rel}:{e.lineno}: parser element in {type(e).__name__}")
            return Opaque(type(e).__name__)
        return Opaque(type(e).__name__)

    def eval_comp(self, e, env, outer_env, mi, cls_qual):
        if isinstance(e, ast.DictComp) or len(e.generators) != 1 or e.generators[0].ifs:
            for n in ast.walk(e):
                if isinstance(n, ast.Name) and isinstance(self.lookup(n.id, env, outer_env), (GNode, PP)):
                    raise AnalysisError(f"{mi.rel}:{e.lineno}: comprehension building grammar not modelled")
            return Opaque("comp")
        g = e.generators[0]
        it = self.eval(g.iter, env, outer_env, mi, cls_qual)
        if not isinstance(it, (list, tuple, str)) or not isinstance(g.target, ast.Name):
            for n in ast.walk(e):
                if isinstance(n, ast.Name) and isinstance(self.lookup(n.id, env, outer_env), (GNode, PP)):
                    raise AnalysisError(f"{mi.rel}:{e.lineno}: comprehension building grammar not modelled")
            return Opaque("comp")
        out = []
        for x in it:
            env2 = dict(env)
            env2[g.target.id] = x
            out.append(self.eval(e.elt, env2, outer_env, mi, cls_qual))
        return out

    def eval_call(self, e: ast.Call, env, outer_env, mi, cls_qual, stmt, conditional):
        ev = lambda x: self.eval(x, env, outer_env, mi, cls_qual)  # noqa: E731
        f = ev(e.func)
        args = []
        for a in e.args:
            if isinstance(a, ast.Starred):
                sv = ev(a.value)
                if isinstance(sv, (list, tuple)):
                    args.extend(sv)
                else:
                    args.append(Opaque("starred"))
            else:
                args.append(ev(a))
        kw = {k.arg: ev(k.value) for k in e.keywords if k.arg}
        src = self.src(mi, e)

        if isinstance(f, GNode):           # expr("name")
            if len(args) >= 1 and isinstance(args[0], str):
                c = f.copy(src)
                self.nodes.append(c)
                c.name = args[0]
                if c.name.endswith("*"):
                    c.name = c.name[:-1]
                    c.attrs["list_all"] = True
                return c
            if not args:
                c = f.copy(src)
                self.nodes.append(c)
                return c
            raise AnalysisError(f"{mi.rel}:{e.lineno}: results name is not a constant string")

        if isinstance(f, BoundMethod):
            return self.eval_method(f, args, kw, e, mi, cls_qual, conditional)

        if isinstance(f, PP):
            return self.eval_pp(f.name, args, kw, e, mi, conditional)

        if isinstance(f, Opaque) and f.why == "builtin:map":
            fn, seq = args[0], args[1] if len(args) > 1 else None
            if isinstance(fn, PP) and isinstance(seq, (list, tuple, str)):
                return [self.eval_pp(fn.name, [x], {}, e, mi, conditional) for x in seq]
            if contains_gnode(args) or isinstance(fn, PP):
                raise AnalysisError(f"{mi.rel}:{e.lineno}: map() over parser elements not modelled")
            return Opaque("map")
        if isinstance(f, Opaque) and f.why in ("builtin:list", "builtin:tuple"):
            if args and isinstance(args[0], (list, tuple)):
                return list(args[0]) if f.why.endswith("list") else tuple(args[0])
            return Opaque("list")
        if isinstance(f, PyFunc) and self.returns_grammar(f):
            return self.call_pyfunc(f, args, kw, e, mi)
        if isinstance(f, (ClassNS, PyFunc, Opaque)):
            if contains_gnode(args) or contains_gnode(list(kw.values())):
                raise AnalysisError(f"{mi.rel}:{e.lineno}: parser element passed to an unmodelled "
                                    f"function: {unparse(e)[:80]}")
            return Opaque("call")
        raise AnalysisError(f"{mi.rel}:{e.lineno}: unmodelled call {unparse(e)[:80]}")

    # ---------------------------------------------------------------- helper functions
    def returns_grammar(self, pf: PyFunc) -> bool:
        """Does the helper mention pyparsing constructs / grammar values at all?"""
        env = self.envs.get(pf.mi.name, {})
        denv = getattr(pf, "def_env", None) or {}
        for n in ast.walk(pf.node):
            if isinstance(n, ast.Name) and (isinstance(env.get(n.id), (PP, GNode, PPModule))
                                            or isinstance(denv.get(n.id), (PP, GNode, PPModule))):
                return True
        return False

    class _Return(Exception):
        def __init__(self, value):
            self.value = value

    def call_pyfunc(self, pf: PyFunc, args, kw, call, mi):
        fn = pf.node
        a = fn.args
        env = dict()
        outer = self.envs.get(pf.mi.name, {})
        if pf.cls_qual is not None:
            # a helper defined in a class body sees module globals only (not the class scope)
            outer = getattr(pf, "def_outer", None) or outer
        pos = [x.arg for x in a.posonlyargs + a.args]
        defaults = list(a.defaults)
        dvals = getattr(pf, "defaults", None)
        kdvals = getattr(pf, "kw_defaults", None)
        for i, name in enumerate(pos):
            if i < len(args):
                env[name] = args[i]
            elif name in kw:
                env[name] = kw[name]
            else:
                di = i - (len(pos) - len(defaults))
                if di < 0:
                    raise AnalysisError(f"{mi.rel}:{call.lineno}: missing argument {name} for {fn.name}()")
                env[name] = dvals[di] if dvals is not None else self.eval(defaults[di], {}, outer, pf.mi, None)
        if a.vararg:
            env[a.vararg.arg] = tuple(args[len(pos):])
        elif len(args) > len(pos):
            raise AnalysisError(f"{mi.rel}:{call.lineno}: too many arguments for {fn.name}()")
        for i, (k, d) in enumerate(zip(a.kwonlyargs, a.kw_defaults)):
            if k.arg in kw:
                env[k.arg] = kw[k.arg]
            elif d is not None:
                env[k.arg] = kdvals[i] if kdvals is not None else self.eval(d, {}, outer, pf.mi, None)
        depth = getattr(self, "_call_depth", 0)
        if depth > 8:
            raise AnalysisError(f"{mi.rel}:{call.lineno}: helper recursion too deep in {fn.name}()")
        self._call_depth = depth + 1
        try:
            self.exec_func_block(fn.body, env, outer, pf.mi)
        except Grammar._Return as r:
            return r.value
        finally:
            self._call_depth = depth
        return None

    def exec_func_block(self, body, env, outer, mi):
        for st in body:
            if isinstance(st, ast.Return):
                raise Grammar._Return(self.eval(st.value, env, outer, mi, None) if st.value is not None else None)
            if isinstance(st, ast.For):
                it = self.eval(st.iter, env, outer, mi, None)
                if not isinstance(it, (list, tuple, str)) or len(it) > 256:
                    raise AnalysisError(f"{mi.rel}:{st.lineno}: loop over a non-constant sequence in a grammar helper")
                for x in it:
                    self.assign(st.target, x, env, outer, mi, None, st, False)
                    self.exec_func_block(st.body, env, outer, mi)
                continue
            if isinstance(st, ast.If):
                t = self.eval(st.test, env, outer, mi, None)
                if isinstance(t, (bool, int, str, list, tuple)) or t is None:
                    self.exec_func_block(st.body if t else st.orelse, env, outer, mi)
                    continue
                raise AnalysisError(f"{mi.rel}:{st.lineno}: non-constant condition in a grammar helper")
            if isinstance(st, (ast.Expr,)) and isinstance(st.value, ast.Constant):
                continue
            self.exec_stmt(st, env, outer, mi, None, False)

    def eval_method(self, bm: BoundMethod, args, kw, e, mi, cls_qual, conditional):
        node, attr = bm.recv, bm.attr
        src = self.src(mi, e)
        if attr in ("setParseAction", "set_parse_action"):
            if len(args) != 1 or not isinstance(args[0], (LambdaVal, PyFunc)):
                raise AnalysisError(f"{mi.rel}:{e.lineno}: parse action is not a single lambda/function")
            a = args[0]
            node.action = a if isinstance(a, LambdaVal) else LambdaVal(a.node, a.mi, a.cls_qual)
            node.extra_actions = []
            node.attrs["action_at"] = src
            return node
        if attr in ("addParseAction", "add_parse_action", "addCondition", "add_condition"):
            for a in args:
                if isinstance(a, (LambdaVal, PyFunc)):
                    lv = a if isinstance(a, LambdaVal) else LambdaVal(a.node, a.mi, a.cls_qual)
                    if node.action is None:
                        node.action = lv
                    else:
                        node.extra_actions.append(lv)
            return node
        if attr == "suppress":
            return self.mk("Suppress", [node], src=src)
        if attr == "ignore":
            if len(args) != 1:
                raise AnalysisError(f"{mi.rel}:{e.lineno}: ignore() takes one expression")
            other = self.to_node(args[0], mi, e)
            self.events.append(Event("ignore", node=node, other=other, mi=mi, at=e,
                                     reach=set(n.uid for n in self.reachable(node)),
                                     conditional=conditional))
            return node
        if attr in ("setResultsName", "set_results_name"):
            if args and isinstance(args[0], str):
                c = node.copy(src)
                self.nodes.append(c)
                c.name = args[0]
                if kw.get("listAllMatches") or kw.get("list_all_matches") or (len(args) > 1 and args[1] is True):
                    c.attrs["list_all"] = True
                return c
            raise AnalysisError(f"{mi.rel}:{e.lineno}: results name is not a constant string")
        if attr == "copy":
            c = node.copy(src)
            self.nodes.append(c)
            return c
        if attr in LAYOUT_SENSITIVE_METHODS:
            node.layout_flags.append(attr)
            return node
        if attr in NOOP_METHODS:
            return node
        if attr in ("parseString", "parse_string", "parseFile", "parse_file", "searchString",
                    "scanString", "transformString"):
            self.events.append(Event("parse_call", node=node, mi=mi, at=e, method=attr))
            return Opaque("parse result")
        if attr in ("ignoreWhitespace", "ignore_whitespace"):
            return node
        raise AnalysisError(f"{mi.rel}:{e.lineno}: unmodelled parser-element method .{attr}()")

    def eval_pp(self, name, args, kw, e, mi, conditional):
        src = self.src(mi, e)
        base = name.split(".")[-1]
        if name.startswith("ParserElement.") or name.startswith("pyparsing.ParserElement."):
            self.events.append(Event("parser_element_call", method=base, args=args, kw=kw, mi=mi, at=e,
                                     conditional=conditional))
            if base in ("setDefaultWhitespaceChars", "set_default_whitespace_chars"):
                self.events.append(Event("global_layout", what=base, mi=mi, at=e))
            return Opaque("ParserElement." + base)
        if base in ("Literal", "Keyword"):
            if len(args) < 1 or not isinstance(args[0], str):
                raise AnalysisError(f"{mi.rel}:{e.lineno}: {base}() argument is not a constant string")
            return self.mk(base, text=args[0], attrs=kw, src=src)
        if base in UNARY:
            if not args:
                raise AnalysisError(f"{mi.rel}:{e.lineno}: {base}() without expression")
            return self.mk(UNARY[base], [self.to_node(args[0], mi, e)], attrs=kw, src=src)
        if base in NARY:
            seq = args[0] if args else []
            if not isinstance(seq, (list, tuple)):
                raise AnalysisError(f"{mi.rel}:{e.lineno}: {base}() over a non-constant sequence")
            return self.mk(NARY[base], [self.to_node(x, mi, e) for x in seq], src=src)
        if base == "Forward":
            n = self.mk("Forward", src=src)
            if args:
                n.children = [self.to_node(args[0], mi, e)]
            return n
        if base in ("delimitedList", "delimited_list", "DelimitedList"):
            delim = args[1] if len(args) > 1 else kw.get("delim", ",")
            attrs = {"delim": delim if isinstance(delim, str) else "<expr>"}
            n = self.mk("DelimitedList", [self.to_node(args[0], mi, e)], attrs=attrs, src=src)
            if kw.get("combine") or (len(args) > 2 and args[2] is True):
                n.layout_flags.append("combine=True")
            if isinstance(delim, GNode):
                n.attrs["delim_node"] = delim
            return n
        if base in ("oneOf", "one_of"):
            # longest-first alternation of plain literals (no word boundary) unless asKeyword / as_keyword is set
            strs = args[0] if args else None
            if isinstance(strs, str):
                strs = strs.split()
            if not isinstance(strs, (list, tuple)) or not all(isinstance(x, str) for x in strs):
                raise AnalysisError(f"{mi.rel}:{e.lineno}: oneOf() over a non-constant list")
            kind = "Keyword" if (kw.get("asKeyword") or kw.get("as_keyword")) else "Literal"
            alts = [self.mk(kind, text=x, attrs={}, src=src) for x in sorted(strs, key=lambda x: (-len(x), strs.index(x)))]
            return self.mk("MatchFirst", alts, src=src)
        if base in TERMINALS:
            attrs = dict(kw)
            attrs["args"] = [a if isinstance(a, str) else "<expr>" for a in args]
            return self.mk(TERMINALS[base], attrs=attrs, src=src)
        if base == "Combine":
            n = self.mk("Combine", [self.to_node(args[0], mi, e)], attrs=kw, src=src)
            adjacent = kw.get("adjacent", args[2] if len(args) > 2 else True)
            if adjacent is not False:
                n.layout_flags.append("Combine(adjacent=True)")
            return n
        if base in ("StringEnd",):
            return self.mk("StringEnd", src=src)
        if base in LAYOUT_SENSITIVE_CTORS:
            kids = [a for a in args if isinstance(a, GNode)]
            return self.mk("LayoutSensitive", kids, attrs={"what": base}, src=src)
        if base in ("ParseResults", "ParserElement", "ParseException", "ParseBaseException"):
            return Opaque("pp:" + base)
        raise AnalysisError(f"{mi.rel}:{e.lineno}: pyparsing construct {name!r} is not modelled")

    # names (not calls) imported from pyparsing that denote elements / strings
    def pp_value(self, name, mi, node):
        base = name.split(".")[-1]
        if base in PP_STRINGS:
            return PP_STRINGS[base]
        if base in COMMENT_EXPRS:
            return self.mk("Comment", attrs={"what": base}, src=self.src(mi, node))
        if base in ("stringEnd", "string_end"):
            return self.mk("StringEnd", src=self.src(mi, node))
        if base in ("quotedString", "quoted_string", "dblQuotedString", "dbl_quoted_string", "sglQuotedString", "sgl_quoted_string"):
            return self.mk("QuotedString", attrs={"what": base}, src=self.src(mi, node))
        if base in LAYOUT_SENSITIVE_CTORS:
            return self.mk("LayoutSensitive", attrs={"what": base}, src=self.src(mi, node))
        return None

    # -------------------------------------------------------------------------- IR analyses
    def reachable(self, root: GNode) -> List[GNode]:
        seen, out, stack = set(), [], [root]
        while stack:
            n = stack.pop()
            if n.uid in seen:
                continue
            seen.add(n.uid)
            out.append(n)
            stack.extend(n.children)
            d = n.attrs.get("delim_node")
            if isinstance(d, GNode):
                stack.append(d)
        return out

    def class_rule(self, cls_qual: str, attr: str = "rule") -> GNode:
        """The node bound to <cls_qual>.<attr> after interpretation."""
        parts = cls_qual.split(".")
        for env in self.envs.values():
            v = env.get(parts[0])
            if isinstance(v, ClassNS) and v.qual == parts[0]:
                cur = v
                for p in parts[1:]:
                    cur = cur.env.get(p)
                    if not isinstance(cur, ClassNS):
                        cur = None
                        break
                if cur is not None and isinstance(cur.env.get(attr), GNode):
                    return cur.env[attr]
        raise AnalysisError(f"grammar anchor vanished: {cls_qual}.{attr}")

    def module_value(self, mod_rel_name: str, name: str):
        env = self.envs.get(f"{PKG}.{mod_rel_name}")
        if env is None or name not in env:
            raise AnalysisError(f"grammar anchor vanished: {mod_rel_name}.{name}")
        return env[name]

    def all_class_rules(self) -> Dict[str, GNode]:
        out = {}

        def walk(ns: ClassNS):
            for k, v in ns.env.items():
                if isinstance(v, GNode) and k == "rule":
                    out[ns.qual] = v
                elif isinstance(v, ClassNS) and v.qual.startswith(ns.qual + "."):
                    walk(v)

        seen = set()
        for env in self.envs.values():
            for v in env.values():
                if isinstance(v, ClassNS) and "." not in v.qual and v.qual not in seen:
                    seen.add(v.qual)
                    walk(v)
        return out


# the interpreter resolves PP names lazily: patch Name/Attribute evaluation of PP values
_orig_eval = Grammar.eval


def _eval_with_pp(self, e, env, outer_env, mi, cls_qual, stmt=None, conditional=False):
    v = _orig_eval(self, e, env, outer_env, mi, cls_qual, stmt, conditional)
    if isinstance(v, PP) and not isinstance(e, ast.Call):
        # a bare reference (not the callee position is decided by the caller: eval_call evaluates
        # e.func through eval too, so only convert known *values*)
        pv = self.pp_value(v.name, mi, e)
        if pv is not None:
            return pv
    return v


Grammar.eval = _eval_with_pp


# ------------------------------------------------------------------------------------------
# structural analyses

TERMINAL_KINDS = {"Literal", "Keyword", "Word", "CharsNotIn", "QuotedString", "NestedExpr",
                  "StringEnd", "Comment", "LayoutSensitive"}
VARIABLE_TERMINALS = {"Word", "CharsNotIn", "QuotedString", "NestedExpr"}


def nullable(n: GNode, _seen=None) -> bool:
    _seen = _seen if _seen is not None else set()
    if n.uid in _seen:
        return False
    _seen = _seen | {n.uid}
    k = n.kind
    if k in ("Optional", "ZeroOrMore", "StringEnd"):
        return True
    if k in ("Literal", "Keyword"):
        return n.text == ""
    if k in VARIABLE_TERMINALS or k in ("Comment",):
        return False
    if k == "LayoutSensitive":
        return True  # conservatively
    if k in ("And", "Each"):
        return all(nullable(c, _seen) for c in n.children)
    if k in ("Or", "MatchFirst"):
        return any(nullable(c, _seen) for c in n.children)
    if k in ("OneOrMore", "DelimitedList", "Group", "Suppress", "OriginalTextFor", "Combine"):
        return nullable(n.children[0], _seen) if n.children else True
    if k == "Forward":
        return nullable(n.children[0], _seen) if n.children else False
    return False


def first_terms(n: GNode, _seen=None) -> Set[Tuple[str, str]]:
    """FIRST set as (kind, text) terminals; variable terminals appear as (kind, '*')."""
    _seen = _seen if _seen is not None else set()
    if n.uid in _seen:
        return set()
    _seen = _seen | {n.uid}
    k = n.kind
    if k in ("Literal", "Keyword"):
        return {(k, n.text)}
    if k in VARIABLE_TERMINALS:
        return {(k, "*" + str(n.attrs.get("args", "")))}
    if k in ("StringEnd", "Comment", "LayoutSensitive"):
        return {(k, "")}
    if k in ("And",):
        out = set()
        for c in n.children:
            out |= first_terms(c, _seen)
            if not nullable(c):
                break
        return out
    out = set()
    for c in n.children:
        out |= first_terms(c, _seen)
    return out


def left_recursive_forwards(g: Grammar, root: GNode) -> List[GNode]:
    """Forwards reachable from themselves without consuming a token."""
    bad = []

    def leftmost(n: GNode, _seen) -> Set[int]:
        if n.uid in _seen:
            return set()
        _seen = _seen | {n.uid}
        res = {n.uid}
        if n.kind == "And":
            for c in n.children:
                res |= leftmost(c, _seen)
                if not nullable(c):
                    break
        else:
            for c in n.children:
                res |= leftmost(c, _seen)
        return res

    for n in g.reachable(root):
        if n.kind == "Forward" and n.children and not n.attrs.get("wraps_forward"):
            lm = set()
            for c in n.children:
                lm |= leftmost(c, set())
            if n.uid in lm:
                bad.append(n)
    return bad


def cycles_with_or(g: Grammar, root: GNode) -> List[Tuple[GNode, List[GNode]]]:
    """(Forward, Or nodes on a cycle through it)."""
    out = []
    for f in g.reachable(root):
        if f.kind != "Forward" or not f.children or f.attrs.get("wraps_forward"):
            continue
        # nodes from which f is reachable and which are reachable from f
        below = g.reachable(f)
        ors = []
        for n in below:
            if n.kind in ("Or", "MatchFirst") and any(x.uid == f.uid for x in g.reachable(n)):
                ors.append(n)
        if ors:
            out.append((f, ors))
    return out


# ------------------------------------------------------------------------------------------
# capture scopes

class Scope:
    """Capture scope of one action node: the sub-graph below it down to (not into) nested
    action nodes."""

    def __init__(self, g: Grammar, root: GNode):
        self.g = g
        self.root = root
        self.members: List[Tuple[GNode, Tuple[GNode, ...]]] = []   # (node, ancestors from root)
        self._walk(root, (), set())

    def _walk(self, n: GNode, anc, seen):
        if n.uid in seen:
            if n.uid == self.root.uid and anc:
                self.members.append((n, anc))    # recursive reference to the rule itself
            return
        seen = seen | {n.uid}
        self.members.append((n, anc))
        if anc and n.action is not None:
            return                       # opaque value
        if n.kind in ("Suppress", "OriginalTextFor", "Combine"):
            return                       # nothing below reaches the results individually
        for c in n.children:
            self._walk(c, anc + (n,), seen)

    def defined_names(self) -> Dict[str, List[GNode]]:
        out: Dict[str, List[GNode]] = {}
        for n, anc in self.members:
            if n.name:
                out.setdefault(n.name, []).append(n)
        return out


def is_constant(n: GNode, _seen=None) -> bool:
    """Matches exactly one fixed token sequence (no information)."""
    _seen = _seen if _seen is not None else set()
    if n.uid in _seen:
        return False
    _seen = _seen | {n.uid}
    if n.kind in ("Literal", "Keyword", "StringEnd"):
        return True
    if n.kind in ("And", "Group", "Suppress", "Combine"):
        return all(is_constant(c, _seen) for c in n.children)
    return False
