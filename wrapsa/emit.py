"""Engine E: constant-folding of text templates (str.format / f-strings / concatenation /
textwrap) into literal parts and slots, with the expression bound to each slot."""
from __future__ import annotations

import ast
import string
import textwrap
from typing import Dict, List, Optional, Tuple, Union

from .core import AnalysisError
from .prog import (Program, ClassInfo, ModuleInfo, dotted, enclosing, func_params, parent,
                   single_def, unparse, value_def, walk_no_nested)


class Slot:
    def __init__(self, key: str, expr: Optional[ast.AST], field: str = "", sub: Optional["Tpl"] = None):
        self.key = key          # placeholder base name / index, or '<expr>' for concatenated values
        self.expr = expr        # bound expression (ast) or None when unbound
        self.field = field      # full field text, e.g. 'arg.default'
        self.sub = sub          # folded template of the bound expression when it is itself text
        self.val = expr         # the expression the slot stands for, with a local name that stands for one expression resolved

    def __repr__(self):
        return f"<Slot {self.field or self.key}>"


class Tpl:
    def __init__(self, parts=None):
        merged: List[Union[str, Slot]] = []
        for p in (parts or []):
            if isinstance(p, str) and merged and isinstance(merged[-1], str):
                merged[-1] = merged[-1] + p
            elif isinstance(p, str) and p == "":
                continue
            else:
                merged.append(p)
        self.parts: List[Union[str, Slot]] = merged
        self.missing: List[str] = []      # placeholders without a bound value
        self.unused: List[str] = []       # keys passed to format but not used by the template
        self.formatted = False

    def literal(self, mark="§") -> str:
        return "".join(p if isinstance(p, str) else mark for p in self.parts)

    def deep_literal(self, mark="§") -> str:
        out = []
        for p in self.parts:
            if isinstance(p, str):
                out.append(p)
            elif p.sub is not None:
                out.append(p.sub.deep_literal(mark))
            else:
                out.append(mark)
        return "".join(out)

    def slots(self) -> List[Slot]:
        return [p for p in self.parts if isinstance(p, Slot)]

    def flat(self, depth: int = 4) -> "Tpl":
        """The template with every slot whose value is itself foldable text (a local bound to an f-string, a helper that
        returns a template) replaced by that text's parts: `f' && isa({v},..)'` with `v = f'varargin{{{i}}}'` reads
        ` && isa(varargin{<i>},..)`."""
        parts: List[Union[str, Slot]] = []
        for p in self.parts:
            if isinstance(p, str) or p.sub is None or depth <= 0:
                parts.append(p)
            else:
                parts += p.sub.flat(depth - 1).parts
        t = Tpl(parts)
        t.missing, t.unused, t.formatted = list(self.missing), list(self.unused), self.formatted
        return t

    def slot(self, key: str) -> Optional[Slot]:
        for s in self.slots():
            if s.key == key:
                return s
        # a slot of a template that was inlined into one of this template's slots (helper call, nested format)
        for s in self.slots():
            if s.sub is not None:
                r = s.sub.slot(key)
                if r is not None:
                    return r
        return None

    def map_text(self, fn):
        """Apply a text->text function (dedent/indent) to the template, slots kept opaque."""
        marks = {}
        buf = []
        for i, p in enumerate(self.parts):
            if isinstance(p, str):
                buf.append(p)
            else:
                m = f"\u0001{i}\u0002"
                marks[m] = p
                buf.append(m)
        text = fn("".join(buf))
        parts: List[Union[str, Slot]] = []
        rest = text
        while rest:
            i = rest.find("\u0001")
            if i < 0:
                parts.append(rest)
                break
            if i:
                parts.append(rest[:i])
            j = rest.index("\u0002", i)
            m = rest[i:j + 1]
            parts.append(marks[m])
            rest = rest[j + 1:]
        t = Tpl(parts)
        t.missing, t.unused, t.formatted = list(self.missing), list(self.unused), self.formatted
        return t

    def apply_format(self, args: List[ast.AST], kwargs: Dict[str, ast.AST], folder=None) -> "Tpl":
        out: List[Union[str, Slot]] = []
        used = set()
        missing = list(self.missing)
        auto = [0]
        fm = string.Formatter()
        for p in self.parts:
            if not isinstance(p, str):
                out.append(p)
                continue
            try:
                pieces = list(fm.parse(p))
            except ValueError as e:
                raise AnalysisError(f"format string does not parse: {e}: {p[:60]!r}")
            for lit, field, spec, conv in pieces:
                if lit:
                    out.append(lit)
                if field is None:
                    continue
                base = field.split(".")[0].split("[")[0]
                if base == "":
                    base = str(auto[0])
                    auto[0] += 1
                expr = None
                if base.isdigit():
                    i = int(base)
                    if i < len(args):
                        expr = args[i]
                        used.add(i)
                elif base in kwargs:
                    expr = kwargs[base]
                    used.add(base)
                if expr is None:
                    missing.append(field or base)
                sub = None
                if expr is not None and folder is not None and field in (base, ""):
                    sub = folder(expr)
                out.append(Slot(base, expr, field or base, sub))
        t = Tpl(out)
        t.missing = missing
        t.unused = list(self.unused) + [k for k in kwargs if k not in used] + \
            [str(i) for i in range(len(args)) if i not in used]
        t.formatted = True
        return t


class Folder:
    """Folds expressions of one function into templates."""

    def __init__(self, prog: Program, mi: ModuleInfo, fn: Optional[ast.FunctionDef],
                 ci: Optional[ClassInfo] = None, depth: int = 8):
        self.prog = prog
        self.mi = mi
        self.fn = fn
        self.ci = ci
        self.depth = depth

    def fold(self, e: ast.AST, depth: Optional[int] = None) -> Optional[Tpl]:
        """Template for expression e, or None when e is not (foldable) text.  A slot bound to a local that stands for
        one non-text expression (`cdef = "def_static" if is_static else "def"` ... `cdef=cdef`) carries that expression
        in `slot.val` (`slot.expr` stays what the format call was given)."""
        t = self._fold(e, depth)
        if t is not None and self.fn is not None:
            params = set(func_params(self.fn))
            for s_ in t.parts:
                seen = 0
                while isinstance(s_, Slot) and isinstance(s_.val, ast.Name) and s_.val.id not in params and seen < 4:
                    v = value_def(self.fn, s_.val.id)
                    if v is None:
                        break
                    s_.val = v
                    seen += 1
                    if not isinstance(v, ast.Name):
                        break
        return t

    def _fold(self, e: ast.AST, depth: Optional[int] = None) -> Optional[Tpl]:
        d = self.depth if depth is None else depth
        if d <= 0:
            return None
        if isinstance(e, ast.Constant):
            if isinstance(e.value, str):
                return Tpl([e.value])
            return None
        if isinstance(e, ast.JoinedStr):
            parts: List[Union[str, Slot]] = []
            for v in e.values:
                if isinstance(v, ast.Constant):
                    parts.append(str(v.value))
                elif isinstance(v, ast.FormattedValue):
                    sub = self.fold(v.value, d - 1)
                    parts.append(Slot(unparse(v.value), v.value, unparse(v.value), sub))
            t = Tpl(parts)
            t.formatted = True
            return t
        if isinstance(e, ast.BinOp) and isinstance(e.op, ast.Add):
            # the whole chain a + b + c + ...: text as soon as one operand is text, each other operand a slot of its own
            ops: List[ast.AST] = []
            x_ = e
            while isinstance(x_, ast.BinOp) and isinstance(x_.op, ast.Add):
                ops.insert(0, x_.right)
                x_ = x_.left
            ops.insert(0, x_)
            folded = [self.fold(o, d - 1) for o in ops]
            if all(f_ is None for f_ in folded):
                return None
            parts_: List[Union[str, Slot]] = []
            for o, f_ in zip(ops, folded):
                parts_ += f_.parts if f_ is not None else [Slot("<expr>", o, unparse(o))]
            t = Tpl(parts_)
            for f_ in folded:
                if f_ is not None:
                    t.missing += f_.missing
                    t.unused += f_.unused
            t.formatted = any(f_ is not None and f_.formatted for f_ in folded)
            return t
        if isinstance(e, ast.BinOp) and isinstance(e.op, ast.Mult):
            # ' ' * 8
            if isinstance(e.left, ast.Constant) and isinstance(e.left.value, str) and \
                    isinstance(e.right, ast.Constant) and isinstance(e.right.value, int):
                return Tpl([e.left.value * e.right.value])
            return None
        if isinstance(e, ast.Call):
            f = e.func
            if isinstance(f, ast.Attribute) and f.attr == "format":
                base = self.fold(f.value, d - 1)
                if base is None:
                    return None
                args = [a for a in e.args if not isinstance(a, ast.Starred)]
                kwargs = {k.arg: k.value for k in e.keywords if k.arg}
                if any(isinstance(a, ast.Starred) for a in e.args) or any(k.arg is None for k in e.keywords):
                    raise AnalysisError(f"{self.mi.rel}:{e.lineno}: format(*args/**kwargs) is not modelled")
                return base.apply_format(args, kwargs, lambda x: self.fold(x, d - 2))
            name = dotted(f) or ""
            if name in ("textwrap.dedent", "dedent") and e.args:
                base = self.fold(e.args[0], d - 1)
                return base.map_text(textwrap.dedent) if base is not None else None
            if name in ("textwrap.indent", "indent") and e.args:
                base = self.fold(e.args[0], d - 1)
                prefix = None
                if len(e.args) > 1:
                    prefix = e.args[1]
                for k in e.keywords:
                    if k.arg == "prefix":
                        prefix = k.value
                pv = self.const_str(prefix) if prefix is not None else None
                if base is None:
                    return None
                if pv is None:
                    return base
                return base.map_text(lambda s: textwrap.indent(s, pv))
            if isinstance(f, ast.Attribute) and f.attr in ("strip", "rstrip", "lstrip") and not e.args:
                return self.fold(f.value, d - 1)
            return self._fold_helper_call(e, d)
        if isinstance(e, ast.Name) and self.fn is not None:
            if e.id in func_params(self.fn):
                return None
            v = single_def(self.fn, e.id)
            if v is not None:
                return self.fold(v, d - 1)
            return None
        if isinstance(e, ast.Attribute):
            # WrapperTemplate.x  /  self.x  (class-level or __init__ constant)
            ci = self.prog.resolve_class(e.value, self.mi)
            if ci is not None:
                a = self.prog.find_attr(ci, e.attr)
                if a is not None:
                    return Folder(self.prog, a[0].mod, None, a[0], d - 1).fold(a[1], d - 1)
                return None
            if isinstance(e.value, ast.Name) and e.value.id == "self" and self.ci is not None:
                a = self.prog.find_attr(self.ci, e.attr)
                if a is not None:
                    return Folder(self.prog, a[0].mod, None, a[0], d - 1).fold(a[1], d - 1)
                init = self.prog.find_method(self.ci, "__init__")
                if init is not None:
                    vals = [n.value for n in walk_no_nested(init[1]) if isinstance(n, ast.Assign)
                            and len(n.targets) == 1 and isinstance(n.targets[0], ast.Attribute)
                            and isinstance(n.targets[0].value, ast.Name) and n.targets[0].value.id == "self"
                            and n.targets[0].attr == e.attr]
                    if len(vals) == 1:
                        return Folder(self.prog, init[0].mod, init[1], init[0], d - 1).fold(vals[0], d - 1)
            return None
        if isinstance(e, ast.IfExp):
            return None
        return None

    def _fold_helper_call(self, e: ast.Call, d: int) -> Optional[Tpl]:
        """`self.h(a, b)` / `Class.h(a, b)` / `h(a, b)` where h does nothing but return one text template: the helper's
        template with its parameters replaced by this call's arguments (defaults for the ones not passed)."""
        from .prog import bind_call
        f = e.func
        target = None
        if isinstance(f, ast.Attribute) and isinstance(f.value, ast.Name) and self.ci is not None and f.value.id in ("self", "cls", self.ci.qual.split(".")[-1]):
            m = self.prog.find_method(self.ci, f.attr)
            if m is not None:
                drop = not any(isinstance(x, ast.Name) and x.id == "staticmethod" for x in m[1].decorator_list)
                target = (m[0], m[1], drop)
        elif isinstance(f, ast.Name) and f.id in self.mi.functions:
            target = (None, self.mi.functions[f.id], False)
        if target is None:
            return None
        hci, hf, drop = target
        body = [st for st in hf.body if not (isinstance(st, ast.Expr) and isinstance(st.value, ast.Constant))]
        if len(body) != 1 or not isinstance(body[0], ast.Return) or body[0].value is None:
            return None
        try:
            b = bind_call(hf, e, drop_self=drop)
        except Exception:
            return None
        params = [a.arg for a in hf.args.args][(1 if drop else 0):]
        defaults = dict(zip(reversed(params), reversed(hf.args.defaults)))
        hmi = hci.mod if hci is not None else self.mi
        t = Folder(self.prog, hmi, None, hci, d - 1).fold(body[0].value, d - 1)
        if t is None:
            return None

        def subst(tpl: Tpl) -> Tpl:
            parts: List[Union[str, Slot]] = []
            for p_ in tpl.parts:
                if isinstance(p_, str):
                    parts.append(p_)
                    continue
                ex = p_.expr
                if isinstance(ex, ast.Name) and ex.id in params:
                    ex = b.get(ex.id, defaults.get(ex.id))
                    sub = self.fold(ex, d - 2) if ex is not None else None
                    parts.append(Slot(p_.key, ex, p_.field, sub))
                else:
                    parts.append(Slot(p_.key, ex, p_.field, subst(p_.sub) if p_.sub is not None else None))
            out = Tpl(parts)
            out.missing, out.unused, out.formatted = list(tpl.missing), list(tpl.unused), tpl.formatted
            return out
        return subst(t)

    def const_str(self, e: ast.AST) -> Optional[str]:
        t = self.fold(e)
        if t is not None and not t.slots():
            return t.literal()
        return None


# ------------------------------------------------------------------------------------------
PAIRS = {"(": ")", "[": "]", "{": "}"}
CLOSERS = {v: k for k, v in PAIRS.items()}


def balance_errors(text: str, angle: bool = False, quotes: str = '"') -> List[str]:
    """Delimiter balance of a literal skeleton (slots already replaced by a neutral mark).
    Quoted strings are skipped (quotes must pair); returns the list of problems."""
    errs = []
    stack = []
    i = 0
    n = len(text)
    pairs = dict(PAIRS)
    if angle:
        pairs["<"] = ">"
    closers = {v: k for k, v in pairs.items()}
    while i < n:
        c = text[i]
        if c in quotes:
            j = i + 1
            while j < n and text[j] != c:
                if text[j] == "\\":
                    j += 1
                j += 1
            if j >= n:
                errs.append(f"unterminated {c} at offset {i}")
                break
            i = j + 1
            continue
        if c in pairs:
            stack.append(c)
        elif c in closers:
            if not stack or stack[-1] != closers[c]:
                errs.append(f"unexpected {c!r} at offset {i}")
            else:
                stack.pop()
        i += 1
    if stack:
        errs.append("unclosed " + "".join(stack))
    return errs


def format_sites(fn: ast.AST):
    """All `X.format(...)` calls and f-strings inside fn (including nested expressions)."""
    for n in ast.walk(fn):
        if isinstance(n, ast.Call) and isinstance(n.func, ast.Attribute) and n.func.attr == "format":
            yield n
        elif isinstance(n, ast.JoinedStr):
            yield n
