"""Where a path value goes (a small forward flow over the syntax tree, following calls the effect engine resolves).

`os.path.abspath(p)` / `Path(p).absolute()` / `os.path.normpath(p)` read the working directory (or nothing), but the file they
name is the file `p` names, and so is its last component.  A value obtained that way is harmless for repeatability (C14) and
for the names derived from the source list (C16) as long as it is used only to *name a file*: opened, tested for existence,
parsed, or reduced to its last component (basename / stem / name / suffix).  `uses_only_name_files` decides that; any other use
(put into text, compared, stored on an object, handed to code the engine cannot resolve) makes it answer False and the caller
keeps its verdict."""
from __future__ import annotations

import ast
from typing import Optional

from .prog import dotted, func_params, parent, walk_no_nested

# functions of one path that give a path to the same file with the same last component
SAME_FILE_FUNCS = {"os.path.abspath", "osp.abspath", "os.path.normpath", "osp.normpath", "os.fspath", "str", "Path", "pathlib.Path",
                   "PurePath", "pathlib.PurePath", "os.path.normcase"}
SAME_FILE_METHODS = {"absolute", "as_posix", "__fspath__"}
# consumers that only name the file (the value stops here)
SINK_FUNCS = {"open", "os.path.basename", "osp.basename", "os.path.exists", "osp.exists", "os.path.isfile", "osp.isfile", "os.path.isdir",
              "osp.isdir", "ET.parse", "xml.etree.ElementTree.parse", "ElementTree.parse", "os.path.splitext", "io.open"}
SINK_ATTRS = {"stem", "name", "suffix", "suffixes"}
SINK_METHODS = {"open", "read_text", "read_bytes", "exists", "is_file", "is_dir"}


def uses_only_name_files(eff, node: ast.AST, fn, mi, ci, depth: int = 4, _seen=None) -> bool:
    """Every use of the value of expression `node` (inside function `fn` of module `mi`) only names a file."""
    _seen = _seen if _seen is not None else set()
    key = (id(node), id(fn))
    if key in _seen:
        return True
    _seen.add(key)
    p = parent(node)
    if p is None:
        return False
    # transparent containers / element-wise forms: the container now carries the value
    if isinstance(p, (ast.List, ast.Tuple)) and node in p.elts:
        return uses_only_name_files(eff, p, fn, mi, ci, depth, _seen)
    if isinstance(p, ast.ListComp) and p.elt is node:
        return uses_only_name_files(eff, p, fn, mi, ci, depth, _seen)
    if isinstance(p, ast.GeneratorExp) and p.elt is node:
        return uses_only_name_files(eff, p, fn, mi, ci, depth, _seen)
    if isinstance(p, ast.Starred):
        return uses_only_name_files(eff, p, fn, mi, ci, depth, _seen)
    if isinstance(p, ast.Subscript) and p.value is node and isinstance(p.ctx, ast.Load):
        return uses_only_name_files(eff, p, fn, mi, ci, depth, _seen)
    if isinstance(p, ast.Attribute) and p.value is node:
        if p.attr in SINK_ATTRS:
            return True
        pp = parent(p)
        if isinstance(pp, ast.Call) and pp.func is p:
            if p.attr in SINK_METHODS:
                return True
            if p.attr in SAME_FILE_METHODS:
                return uses_only_name_files(eff, pp, fn, mi, ci, depth, _seen)
        return False
    # iteration: the loop variable carries it
    if isinstance(p, (ast.For, ast.comprehension)) and p.iter is node:
        tgt = p.target
        if not isinstance(tgt, ast.Name):
            return False
        scope = fn if isinstance(p, ast.For) else parent(p)
        return _name_uses(eff, tgt.id, scope, fn, mi, ci, depth, _seen, skip=tgt)
    # binding to a local name
    if isinstance(p, ast.Assign) and p.value is node:
        if len(p.targets) != 1 or not isinstance(p.targets[0], ast.Name):
            return False
        return _name_uses(eff, p.targets[0].id, fn, fn, mi, ci, depth, _seen, skip=p.targets[0])
    if isinstance(p, ast.AnnAssign) and p.value is node and isinstance(p.target, ast.Name):
        return _name_uses(eff, p.target.id, fn, fn, mi, ci, depth, _seen, skip=p.target)
    if isinstance(p, ast.withitem) and p.context_expr is node:
        return False
    if isinstance(p, ast.keyword):
        call = parent(p)
        return _through_call(eff, call, node, fn, mi, ci, depth, _seen, kw=p.arg)
    if isinstance(p, ast.Call) and node in p.args:
        return _through_call(eff, p, node, fn, mi, ci, depth, _seen, pos=p.args.index(node))
    if isinstance(p, ast.Expr):
        return True
    return False


def _name_uses(eff, name: str, scope, fn, mi, ci, depth, _seen, skip=None) -> bool:
    loads = [n for n in (ast.walk(scope) if not isinstance(scope, (ast.FunctionDef, ast.AsyncFunctionDef)) else walk_no_nested(scope))
             if isinstance(n, ast.Name) and n.id == name and n is not skip]
    for n in loads:
        if isinstance(n.ctx, ast.Store):
            continue                                      # another binding of the name: judged at its own value if it is one of ours
        if not uses_only_name_files(eff, n, fn, mi, ci, depth, _seen):
            return False
    return True


def _through_call(eff, call: ast.Call, arg: ast.AST, fn, mi, ci, depth, _seen, pos: Optional[int] = None, kw: Optional[str] = None) -> bool:
    name = dotted(call.func) or ""
    cname = eff.canon(name, mi) if name else ""
    if cname in SINK_FUNCS or name in SINK_FUNCS:
        return pos in (0, None) or kw in ("file", "path")
    if cname in SAME_FILE_FUNCS or name in SAME_FILE_FUNCS:
        return uses_only_name_files(eff, call, fn, mi, ci, depth, _seen)
    if depth <= 0:
        return False
    try:
        targets = eff.resolve_call(call, mi, ci, fn)
    except Exception:
        return False
    if len(targets) != 1:
        return False
    tmi, tfn, tci = eff.funcs[targets[0]]
    params = [a for a in func_params(tfn)]
    if params and params[0] in ("self", "cls") and tci is not None and isinstance(call.func, ast.Attribute):
        params = params[1:]
    if kw is not None:
        pname = kw if kw in params else None
    else:
        pname = params[pos] if pos is not None and pos < len(params) and not any(isinstance(a, ast.Starred) for a in call.args[:pos + 1]) else None
    if pname is None:
        return False
    return _name_uses(eff, pname, tfn, tfn, tmi, tci, depth - 1, _seen)
