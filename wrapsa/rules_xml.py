"""Docstring rules (C17 Q1-Q5): gtwrap/xml_parser/xml_parser.py and its single use in the pybind emitter."""
from __future__ import annotations

import ast
from typing import Dict, List, Optional, Set, Tuple

from .core import AnalysisError, Report
from .emit import Folder
from .prog import (Program, bind_call, dotted, enclosing, func_params, guards_of, inline_locals, local_assignments, parent,
                   single_def, stmt_of, unparse, value_def, walk_no_nested)
from .rules_pybind import find_tpl

XP = "gtwrap/xml_parser/xml_parser.py"
OPTIONAL_CALLS = {"find"}          # Element.find -> Optional[Element]
OPTIONAL_ATTRS = {"text", "tail"}  # Element.text -> Optional[str]


def docstring_source(ctx):
    """Where the docstring slot of _wrap_method gets its value: (function holding the expression, test under which the
    slot is non-empty ('' otherwise) or None, the non-empty expression, {helper parameter: caller's argument text}).
    Two shapes: the conditional expression written in the slot, or a local bound to `self.<helper>(...)` whose helper
    returns '' first thing when no XML source is configured and the literal otherwise."""
    prog = ctx.prog
    ci = prog.cls("PybindWrapper")
    fn = prog.method("PybindWrapper", "_wrap_method")
    tpl = find_tpl(ctx, fn, {"docstring", "py_args_names"})
    if tpl is None:
        raise AnalysisError("_wrap_method: template with a {docstring} slot not found")
    e = tpl.slot("docstring").expr
    if isinstance(e, ast.Name) and isinstance(single_def(fn, e.id), ast.IfExp):
        e = single_def(fn, e.id)          # the conditional expression held in a local: the same shape, one name away
    if isinstance(e, ast.IfExp):
        empty_ok = unparse(e.test).replace(" ", "") in ("self.xml_source!=''", 'self.xml_source!=""') \
            and isinstance(e.orelse, ast.Constant) and e.orelse.value == ""
        return fn, tpl, e, empty_ok, e.body, {}, None
    if isinstance(e, ast.Name):
        # third shape: the local is bound once in each branch of one if/else statement of _wrap_method
        binds = [b for b in local_assignments(fn).get(e.id, [])]
        if len(binds) == 2 and all(isinstance(b, ast.Assign) and len(b.targets) == 1 for b in binds) \
                and isinstance(parent(binds[0]), ast.If) and parent(binds[0]) is parent(binds[1]):
            st = parent(binds[0])
            in_body = [b for b in binds if b in st.body]
            in_else = [b for b in binds if b in st.orelse]
            if len(in_body) == 1 and len(in_else) == 1:
                t = unparse(st.test).replace(" ", "")
                if t in ("self.xml_source!=''", 'self.xml_source!=""', "self.xml_source"):
                    full, empty = in_body[0], in_else[0]
                elif t in ("self.xml_source==''", 'self.xml_source==""', "notself.xml_source"):
                    full, empty = in_else[0], in_body[0]
                else:
                    full = empty = None
                if full is not None:
                    # what the statement binds besides the slot's local stays inside the statement
                    temps = {n.id for n in ast.walk(st) if isinstance(n, ast.Name) and isinstance(n.ctx, ast.Store)} - {e.id}
                    leaked = sorted(n.id for n in walk_no_nested(fn) if isinstance(n, ast.Name) and isinstance(n.ctx, ast.Load)
                                    and n.id in temps and not any(n is y for y in ast.walk(st)))
                    empty_ok = isinstance(empty.value, ast.Constant) and empty.value.value == "" and not leaked
                    return fn, tpl, st, empty_ok, inline_locals(fn, full.value), {}, None
    src = e
    if isinstance(e, ast.Name):
        vs = [st.value for st in walk_no_nested(fn) if isinstance(st, ast.Assign) and len(st.targets) == 1
              and isinstance(st.targets[0], ast.Name) and st.targets[0].id == e.id]
        src = vs[0] if len(vs) == 1 else e
    if isinstance(src, ast.Call) and isinstance(src.func, ast.Attribute) and unparse(src.func.value) == "self":
        h = prog.find_method(ci, src.func.attr)
        if h is not None:
            hf = h[1]
            b = {k: unparse(v) for k, v in bind_call(hf, src, drop_self=True).items()}
            first = hf.body[1] if hf.body and isinstance(hf.body[0], ast.Expr) and isinstance(hf.body[0].value, ast.Constant) and len(hf.body) > 1 else (hf.body[0] if hf.body else None)
            empty_ok = isinstance(first, ast.If) and unparse(first.test).replace(" ", "") in ("self.xml_source==''", 'self.xml_source==""',
                                                                                             "notself.xml_source") \
                and len(first.body) == 1 and isinstance(first.body[0], ast.Return) and isinstance(first.body[0].value, ast.Constant) \
                and first.body[0].value.value == "" and not first.orelse
            rets = [r for r in walk_no_nested(hf) if isinstance(r, ast.Return) and r.value is not None and r not in (first.body if isinstance(first, ast.If) else [])]
            if len(rets) == 1:
                return hf, tpl, e, empty_ok, _straightline(hf, rets[0].value), b, src
    return fn, tpl, e, False, e, {}, None


def rule_confinement(ctx, rep: Report, rid="Q1"):
    prog = ctx.prog
    ci = prog.cls("PybindWrapper")
    fn = prog.method("PybindWrapper", "_wrap_method")
    holder, tpl, e, empty_ok, body, pmap, hcall = docstring_source(ctx)
    reads = []
    for mname, f_ in ci.methods.items():
        for x in walk_no_nested(f_):
            if isinstance(x, ast.Attribute) and x.attr in ("xml_source", "xml_parser") and isinstance(x.value, ast.Name) \
                    and x.value.id == "self" and isinstance(x.ctx, ast.Load):
                reads.append((mname, x, f_))
    allowed = {"_wrap_method"}
    if holder is not fn:
        # the helper is private to the docstring slot: called from _wrap_method only, its result used for that slot only
        hname = holder.name
        callers = sorted({m for m, f_ in ci.methods.items() for c in ast.walk(f_) if isinstance(c, ast.Call) and isinstance(c.func, ast.Attribute)
                          and c.func.attr == hname and unparse(c.func.value) == "self"})
        uses = [u for u in walk_no_nested(fn) if isinstance(e, ast.Name) and isinstance(u, ast.Name) and u.id == e.id and isinstance(u.ctx, ast.Load)]
        only_slot = isinstance(e, ast.Name) and all(isinstance(parent(u), ast.keyword) and parent(u).arg == "docstring" for u in uses)
        if callers == ["_wrap_method"] and (only_slot or not isinstance(e, ast.Name)):
            allowed.add(hname)
    sites = sorted({m for m, _, _ in reads})
    rep.add(rid, "xml_source / xml_parser are read by one emitter only", set(sites) <= allowed and "_wrap_method" in allowed and bool(sites),
            f"read in {sites}: output produced without XML must be the output with XML minus the docstring literals, so "
            f"nothing but the docstring slot may depend on them", f"{ci.mod.rel}:{reads[0][1].lineno if reads else 0}")
    rep.add(rid, "docstring slot is empty exactly when no XML source is configured", empty_ok,
            f"docstring <- {unparse(e)[:120]}", f"{ci.mod.rel}:{fn.lineno}")
    # every read lies inside that slot expression (or inside the helper that only feeds the slot)
    inside = all(any(x is y for y in ast.walk(e)) or m in allowed - {"_wrap_method"} for m, x, _ in reads if m in allowed)
    rep.add(rid, "every read of xml_source / xml_parser lies inside the docstring slot's expression", inside,
            "another expression of _wrap_method depends on the XML configuration", f"{ci.mod.rel}:{fn.lineno}")
    # the slot directly follows the py::arg list and precedes the closing parenthesis
    lit = tpl.literal("@")
    keys = [s_.key for s_ in tpl.slots()]
    i = keys.index("docstring")
    rep.add(rid, "docstring literal is the last argument of the .def(...) call", keys[i - 1] == "py_args_names" and lit.rstrip("@").endswith(")"),
            f"slots {keys}, skeleton ...{lit[-20:]!r}", f"{ci.mod.rel}:{fn.lineno}")
    _literal_encoding(ctx, rep, rid, ci, holder, body)
    call = next((c for c in ast.walk(body) if isinstance(c, ast.Call) and isinstance(c.func, ast.Attribute)
                 and c.func.attr == "extract_docstring"), None)
    args = [pmap.get(unparse(a), unparse(a)) for a in call.args] if call else []
    mp = func_params(fn)[1]
    cls_param = func_params(fn)[2]
    a2 = call.args[2] if call and len(call.args) > 2 else None
    callee = []
    if a2 is not None:
        if unparse(a2) in pmap:
            a2 = ast.parse(pmap[unparse(a2)], mode="eval").body
        callee = [unparse(v) for v in _vals(fn, a2)]
    names_arg = args[3] if len(args) > 3 else ""
    if names_arg and names_arg != f"{mp}.args.names()":
        nv = [unparse(v) for v in _vals(fn, ast.parse(names_arg, mode="eval").body)]
        names_arg = nv[0] if len(nv) == 1 else names_arg
    rep.add(rid, "docstring looked up for (class, C++ method name, argument names) of this very binding",
            len(args) == 4 and args[0] == "self.xml_source" and args[1] == cls_param and callee == [f"{mp}.to_cpp()"]
            and names_arg == f"{mp}.args.names()", f"extract_docstring({', '.join(args)}); method name <- {callee}",
            f"{ci.mod.rel}:{fn.lineno}")


def _flat_concat(x, out):
    if isinstance(x, ast.BinOp) and isinstance(x.op, ast.Add):
        _flat_concat(x.left, out)
        _flat_concat(x.right, out)
    else:
        out.append(x)
    return out


def _straightline(fn, e):
    """e with the locals of fn substituted by what the straight-line statements of fn bound them to, in order
    (a local assigned twice - `body = f(x); body = g(body)` - is followed through both assignments)."""
    from .prog import clone_expr
    env = {}

    def subst(x):
        x = clone_expr(x)

        class T(ast.NodeTransformer):
            def visit_Name(self, n):
                if isinstance(n.ctx, ast.Load) and n.id in env:
                    return clone_expr(env[n.id])
                return n
        return T().visit(x)
    for st in fn.body:
        if isinstance(st, ast.Assign) and len(st.targets) == 1 and isinstance(st.targets[0], ast.Name):
            env[st.targets[0].id] = subst(st.value)
        elif isinstance(st, (ast.If, ast.For, ast.While, ast.Try, ast.With)):
            for n in ast.walk(st):
                if isinstance(n, ast.Name) and isinstance(n.ctx, ast.Store):
                    env.pop(n.id, None)
    return subst(e)


def _is_repr_body(x) -> bool:
    """repr(<text>)[1:-1]"""
    return isinstance(x, ast.Subscript) and unparse(x.slice).replace(" ", "") == "1:-1" and isinstance(x.value, ast.Call) \
        and unparse(x.value.func) == "repr" and len(x.value.args) == 1


def _literal_encoding(ctx, rep, rid, ci, fn, body):
    """The documentation text becomes `"<encoded>"` where <encoded> is decoded by a C++ compiler to the text itself.
    Python's repr writes unprintable characters below U+0100 as \\xNN; a C++ hex escape has no length limit, so
    `\\x01` followed by a hex digit is read as one other character.  The encoder therefore has to rewrite those
    escapes into bounded ones (three-digit octal below 0x80, universal character names above), tokenising every
    backslash escape so that an escaped backslash followed by `x41` is left alone, and has to escape `"` last."""
    prog = ctx.prog
    loc = f"{ci.mod.rel}:{fn.lineno}"
    parts = _flat_concat(body, [])
    # shape 1 (inline): ', "' + repr(text)[1:-1].replace('"', '\\"') + '"'
    if len(parts) == 3 and isinstance(parts[1], ast.Call) and isinstance(parts[1].func, ast.Attribute) and parts[1].func.attr == "replace" \
            and _is_repr_body(parts[1].func.value):
        rep.add(rid, "docstring literal: every escape sequence written is read back by C++ as the same character", False,
                "the literal is repr(text)[1:-1] with only `\"` escaped: repr writes U+0001..U+001F, U+007F..U+00A0 as \\xNN, and C++ "
                "reads `\\x01` followed by `a` as the single character \\x1a (hex escapes are unbounded): the compiled docstring "
                "differs from the documentation text, or does not compile (value out of range)", loc)
        return
    # shape 2: ', ' + self.<helper>(<text>)
    if not (len(parts) == 2 and isinstance(parts[0], ast.Constant) and parts[0].value.strip() == "," and isinstance(parts[1], ast.Call)
            and isinstance(parts[1].func, ast.Attribute) and unparse(parts[1].func.value) in ("self", ci.qual)):
        raise AnalysisError(f"{loc}: docstring literal is built in a way this rule does not know: {unparse(body)[:80]}")
    h = prog.find_method(ci, parts[1].func.attr)
    if h is None:
        raise AnalysisError(f"{loc}: encoder {parts[1].func.attr} not found")
    hf = h[1]
    hp = [a.arg for a in hf.args.args if a.arg != "self"]
    # decided by running the encoder on sample texts and decoding the result as C++ does, wherever the encoder can be run
    bad_, err_ = _literal_roundtrip(ci, hf)
    if err_ is None:
        rep.add(rid, "docstring literal: every escape sequence written is read back by C++ as the same character", not bad_,
                f"{bad_[:2]}: the compiled docstring differs from the documentation text, or the unit does not compile", f"{ci.mod.rel}:{hf.lineno}")
        return
    hloc = f"{h[0].mod.rel}:{hf.lineno}"
    rets = [r for r in walk_no_nested(hf) if isinstance(r, ast.Return)]
    if len(rets) != 1 or not hp:
        raise AnalysisError(f"{hloc}: encoder with {len(rets)} return statements")
    rv = _straightline(hf, rets[0].value)
    if isinstance(rv, ast.Call) and unparse(rv.func) in ("json.dumps", "dumps") and rv.args and unparse(rv.args[0]) == hp[0]:
        # a JSON string literal: double-quoted, `"` and `\\` escaped, no \xNN - but not a C++ literal for every text
        ascii_only = not any(k.arg == "ensure_ascii" and isinstance(k.value, ast.Constant) and k.value.value is False for k in rv.keywords)
        rep.add(rid, "docstring literal: every escape sequence written is read back by C++ as the same character", False,
                ("json.dumps writes every character above U+FFFF as a UTF-16 surrogate pair (`\\ud835\\udc45`); a universal character name that "
                 "designates a surrogate is ill-formed in C++, the translation unit does not compile" if ascii_only else
                 "json.dumps(ensure_ascii=False) leaves U+2028 / U+2029 and every non-ASCII character raw and escapes `/`-free text only by JSON's "
                 "rules; C++ reads `\\/`-less text the same way but the literal is no longer independent of the source encoding") +
                " (documentation with a mathematical letter or an emoji)", hloc)
        return
    rparts = _flat_concat(rv, [])
    quoted = len(rparts) == 3 and all(isinstance(rparts[i], ast.Constant) and rparts[i].value == '"' for i in (0, 2))
    mid = rparts[1] if len(rparts) == 3 else None
    esc_q = isinstance(mid, ast.Call) and isinstance(mid.func, ast.Attribute) and mid.func.attr == "replace" and \
        [getattr(a, "value", None) for a in mid.args] == ['"', '\\"']
    rep.add(rid, "docstring literal: enclosed in double quotes, `\"` escaped as the last step", quoted and esc_q,
            f"return {unparse(rets[0].value)[:80]}", hloc)
    inner = mid.func.value if esc_q else None
    if isinstance(inner, ast.Call) and isinstance(inner.func, ast.Attribute) and inner.func.attr in ("replace", "translate", "strip", "lstrip", "rstrip"):
        rep.add(rid, "docstring literal: nothing but the escaping of `\"` is applied to the tokenised escapes", False,
                f"`{unparse(inner)[-60:]}` rewrites the encoded text again without tokenising its escape sequences: e.g. replacing "
                "\\' by ' also takes the second backslash of an escaped backslash that stands in front of an apostrophe", hloc)
        inner = inner.func.value
        while isinstance(inner, ast.Call) and isinstance(inner.func, ast.Attribute) and inner.func.attr in ("replace", "translate"):
            inner = inner.func.value
    sub = inner if isinstance(inner, ast.Call) and unparse(inner.func) in ("re.sub", "sub") and len(inner.args) == 3 else None
    if sub is None and isinstance(inner, ast.Call) and isinstance(inner.func, ast.Attribute) and inner.func.attr == "sub" and len(inner.args) == 2 \
            and isinstance(inner.func.value, ast.Name):
        # <compiled pattern>.sub(fn, text) with the pattern compiled once at module (or function) level: the same call
        defs = [st.value for st in list(h[0].mod.tree.body) + list(walk_no_nested(hf)) if isinstance(st, ast.Assign) and len(st.targets) == 1
                and isinstance(st.targets[0], ast.Name) and st.targets[0].id == inner.func.value.id]
        if len(defs) == 1 and isinstance(defs[0], ast.Call) and unparse(defs[0].func) in ("re.compile", "compile") and len(defs[0].args) == 1:
            sub = ast.Call(func=inner.func, args=[defs[0].args[0]] + list(inner.args), keywords=[])
    src_ok = sub is not None and _is_repr_body(sub.args[2]) and unparse(sub.args[2].value.args[0]) == hp[0]
    rep.add(rid, "docstring literal: starts from repr(text)[1:-1] of the text handed in", src_ok or (inner is not None and _is_repr_body(inner)),
            f"{unparse(inner)[:80] if inner is not None else None}", hloc)
    if sub is None:
        rep.add(rid, "docstring literal: every escape sequence written is read back by C++ as the same character", False,
                "repr's \\xNN escapes reach the C++ literal unchanged (unbounded hex escapes)", hloc)
        return
    # the pattern tokenises every escape: literal backslash, then (x HH | any character)
    pat = sub.args[0].value if isinstance(sub.args[0], ast.Constant) and isinstance(sub.args[0].value, str) else None
    tok_ok, why = False, "pattern is not a constant"
    if pat is not None:
        import re._parser as sp        # parse only: the pattern is analysed, never run
        import re._constants as sc
        tree = list(sp.parse(pat))
        why = f"pattern {pat!r}"
        if len(tree) == 2 and tree[0] == (sc.LITERAL, ord("\\")) and tree[1][0] == sc.SUBPATTERN:
            inner_p = list(tree[1][1][3])
            if len(inner_p) == 1 and inner_p[0][0] == sc.BRANCH:
                branches = [list(b) for b in inner_p[0][1][1]]
                def hex_class(item) -> bool:
                    """The repeated item is exactly the set of digits repr writes: 0-9 and a-f."""
                    if len(item) != 1 or item[0][0] != sc.IN:
                        return False
                    chars = set()
                    for kind, val in item[0][1]:
                        if kind == sc.RANGE:
                            chars |= set(range(val[0], val[1] + 1))
                        elif kind == sc.LITERAL:
                            chars.add(val)
                        else:
                            return False
                    return chars == set(map(ord, "0123456789abcdef"))
                hexb = [b for b in branches if len(b) == 2 and b[0] == (sc.LITERAL, ord("x")) and b[1][0] == sc.MAX_REPEAT
                        and b[1][1][0] == 2 and b[1][1][1] == 2 and hex_class(list(b[1][1][2]))]
                anyb = [b for b in branches if len(b) == 1 and b[0][0] == sc.ANY]
                tok_ok = bool(hexb) and bool(anyb) and branches.index(hexb[0]) < branches.index(anyb[0])
    rep.add(rid, "docstring literal: the rewrite consumes every backslash escape in turn (\\\\x41 is an escaped backslash plus text, not a hex escape)",
            tok_ok, why, hloc)
    # the replacement function: non-x escapes unchanged; x escapes -> %03o below 0x80, \\u%04x otherwise
    rf = sub.args[1]
    rfn = next((f for f in list(ast.walk(hf)) + list(h[0].mod.tree.body) if isinstance(f, ast.FunctionDef) and isinstance(rf, ast.Name) and f.name == rf.id), None)
    fmt_ok, detail = False, "replacement is not a local function"
    if rfn is not None:
        consts = [c.value for r in ast.walk(rfn) if isinstance(r, ast.Return) and r.value is not None for c in ast.walk(r.value)
                  if isinstance(c, ast.Constant) and isinstance(c.value, str)]
        octal = [c for c in consts if c.rstrip("}").endswith("o")]
        ucn = [c for c in consts if c.rstrip("}").endswith("x")]
        bounded_oct = all(c in ("\\%03o", "\\{:03o}") for c in octal)
        bounded_ucn = all(c in ("\\u%04x", "\\u{:04x}", "\\U%08x", "\\U{:08x}") for c in ucn)
        guards = [unparse(i.test).replace(" ", "") for r in ast.walk(rfn) if isinstance(r, ast.Return) and isinstance(r.value, ast.IfExp)
                  for i in [r.value]]
        split_ok = (not octal) or any(g.endswith("<0x80") or g.endswith("<128") or g.endswith("<=0x7f") or g.endswith("<=127") for g in guards)
        passthrough = any(isinstance(r.value, ast.Name) or (isinstance(r.value, ast.Call) and "group" in unparse(r.value))
                          for r in ast.walk(rfn) if isinstance(r, ast.Return) and r.value is not None)
        fmt_ok = bool(octal or ucn) and bounded_oct and bounded_ucn and split_ok and passthrough
        detail = f"formats {sorted(set(consts))}, guards {guards}, other escapes passed through {passthrough}"
    rep.add(rid, "docstring literal: every escape sequence written is read back by C++ as the same character", fmt_ok,
            detail + ": hex escapes must become fixed-width escapes (three octal digits below 0x80 - above that an octal escape is a "
            "single byte, not the character - and \\uXXXX otherwise)", hloc)
    if rfn is not None:
        _replacement_dispatch(rep, rid, rfn, hloc)


def _replacement_dispatch(rep, rid, rfn, hloc):
    """Inside the replacement function of the tokenising re.sub: the text looked at is the *whole* match (group 0, which
    starts with the backslash), the character that decides is the one right after the backslash (index 1) compared with
    'x', every other escape is handed back unchanged, and the code point is read from the two digits after the `x`
    (`[2:]`, base 16)."""
    mparam = rfn.args.args[0].arg if rfn.args.args else None
    whole = {}
    for st in walk_no_nested(rfn):
        if isinstance(st, ast.Assign) and len(st.targets) == 1 and isinstance(st.targets[0], ast.Name):
            v = st.value
            if isinstance(v, ast.Call) and isinstance(v.func, ast.Attribute) and v.func.attr == "group" and unparse(v.func.value) == mparam:
                whole[st.targets[0].id] = (v.args[0].value if v.args and isinstance(v.args[0], ast.Constant) else 0)
            elif isinstance(v, ast.Subscript) and unparse(v.value) == mparam and isinstance(v.slice, ast.Constant):
                whole[st.targets[0].id] = v.slice.value
    if not whole:
        rep.add(rid, "docstring literal: the replacement looks at the whole escape sequence", True,
                "not decided: the matched text is not bound to a local from match.group(n)", hloc, nontrivial=False)
        return
    var, grp = sorted(whole.items())[0]
    rep.add(rid, "docstring literal: the replacement looks at the whole escape sequence", grp == 0,
            f"`{var} = {mparam}.group({grp})`: group {grp} lacks the backslash, so index 1 is not the escape letter and what is handed back for other "
            f"escapes has lost its backslash", hloc)
    # the pass-through decision
    decided = False
    for r in walk_no_nested(rfn):
        if isinstance(r, ast.Return) and isinstance(r.value, ast.Name) and r.value.id == var:
            facts = []
            for t, pol in guards_of(r, rfn, include_exits=False):
                facts += _split_facts(ast.parse(t, mode="eval").body, pol)
            for f_, pol in facts:
                if isinstance(f_, ast.Compare) and len(f_.ops) == 1 and isinstance(f_.ops[0], (ast.Eq, ast.NotEq)) \
                        and isinstance(f_.left, ast.Subscript) and unparse(f_.left.value) == var and isinstance(f_.left.slice, ast.Constant) \
                        and isinstance(f_.comparators[0], ast.Constant):
                    decided = True
                    idx, ch = f_.left.slice.value, f_.comparators[0].value
                    not_x = (isinstance(f_.ops[0], ast.NotEq) and pol) or (isinstance(f_.ops[0], ast.Eq) and not pol)
                    rep.add(rid, "docstring literal: an escape is handed back unchanged exactly when its letter is not `x`", idx == 1 and ch == "x" and not_x,
                            f"`{unparse(f_)}` is {pol} where `{var}` is returned unchanged: tested index {idx}, letter {ch!r}, unchanged when "
                            f"{'not ' if not_x else ''}equal - the hex escapes must be the ones rewritten and all others (\\n, \\\\, \\u....) kept",
                            hloc)
    if not decided:
        rep.add(rid, "docstring literal: an escape is handed back unchanged exactly when its letter is not `x`", True,
                "not decided: pass-through is not written as a comparison of one character of the match", hloc, nontrivial=False)
    for c in ast.walk(rfn):
        if isinstance(c, ast.Call) and isinstance(c.func, ast.Name) and c.func.id == "int" and len(c.args) == 2 and isinstance(c.args[0], ast.Subscript) \
                and unparse(c.args[0].value) == var and isinstance(c.args[0].slice, ast.Slice):
            sl = c.args[0].slice
            lo = sl.lower.value if isinstance(sl.lower, ast.Constant) else None
            base = c.args[1].value if isinstance(c.args[1], ast.Constant) else None
            rep.add(rid, "docstring literal: the code point is the two hex digits after `\\x`", lo == 2 and sl.upper is None and base == 16,
                    f"`{unparse(c)}`: digits taken from [{lo}:{unparse(sl.upper) if sl.upper else ''}] in base {base}", hloc)


def _vals(fn, e):
    if isinstance(e, ast.Name):
        vs = [st.value for st in local_assignments(fn).get(e.id, []) if isinstance(st, ast.Assign)]
        if vs:
            return vs
    return [e]


# ------------------------------------------------------------------------------------------
def _facts(node: ast.AST, fn) -> List[Tuple[str, bool]]:
    """Atomic facts known where `node` executes: (expression text, truth).  Guards are split into
    conjuncts (positive) / disjuncts (negative); `and`-chains and conditional expressions that
    enclose the node in the same expression contribute the operands evaluated before it."""
    out: List[Tuple[str, bool]] = []

    def add(e: ast.AST, pol: bool):
        if isinstance(e, ast.BoolOp) and ((isinstance(e.op, ast.And) and pol) or (isinstance(e.op, ast.Or) and not pol)):
            for v in e.values:
                add(v, pol)
        elif isinstance(e, ast.UnaryOp) and isinstance(e.op, ast.Not):
            add(e.operand, not pol)
        else:
            out.append((unparse(e).replace(" ", ""), pol))

    for test, pol in guards_of(node, fn, include_exits=True):
        add(ast.parse(test, mode="eval").body, pol)
    p = node
    while p is not None and p is not fn:
        q = parent(p)
        if isinstance(q, ast.BoolOp) and isinstance(q.op, ast.And) and p in q.values:
            for v in q.values[: q.values.index(p)]:
                add(v, True)
        if isinstance(q, ast.BoolOp) and isinstance(q.op, ast.Or) and p in q.values:
            for v in q.values[: q.values.index(p)]:
                add(v, False)
        if isinstance(q, ast.IfExp) and q.body is p:
            add(q.test, True)
        if isinstance(q, ast.IfExp) and q.orelse is p:
            add(q.test, False)
        p = q
    return out


def _none_excluded(node: ast.AST, subject: str, fn, depth: int = 2) -> bool:
    """Is `subject` (source text of an optional expression) known to be not-None where node executes?"""
    subj = subject.replace(" ", "")
    facts = _facts(node, fn)
    for t, pol in facts:
        if pol and t in (f"{subj}isnotNone", subj):
            return True
        if (not pol) and t in (f"{subj}isNone",):
            return True
    if depth > 0:
        # X is not None, where X = (<expr using subject> if <subject> is not None else None)
        for t, pol in facts:
            if pol and t.endswith("isnotNone"):
                x = t[: -len("isnotNone")]
                vals = [st.value for st in local_assignments(fn).get(x, []) if isinstance(st, ast.Assign)]
                vd = value_def(fn, x) if x.isidentifier() else None          # the same conditional written as an if/else statement
                for v in vals + ([vd] if vd is not None else []):
                    if isinstance(v, ast.IfExp) and isinstance(v.orelse, ast.Constant) \
                            and v.orelse.value is None and unparse(v.test).replace(" ", "").strip("()") == f"{subj}isnotNone":
                        return True
                    if isinstance(v, ast.IfExp) and isinstance(v.body, ast.Constant) and v.body.value is None \
                            and unparse(v.test).replace(" ", "").strip("()") == f"{subj}isNone":
                        return True
    return False


def rule_optional_results(ctx, rep: Report, rid="Q2", min_sites=8):
    """Engler-style contradiction rule: the result of Element.find(...) (Optional) and element.text
    (Optional) must not be dereferenced unless a dominating test excludes None; attrib[...] must be
    guarded by a membership test (or use .get)."""
    prog = ctx.prog
    ci = prog.cls("XMLDocParser")
    n = 0
    for mname, fn in sorted(ci.methods.items()):
        # locals bound to an optional value
        opt_locals: Dict[str, str] = {}
        for name, sts in local_assignments(fn).items():
            for st in sts:
                if isinstance(st, ast.Assign) and isinstance(st.value, ast.Call) and isinstance(st.value.func, ast.Attribute) \
                        and st.value.func.attr in OPTIONAL_CALLS:
                    opt_locals[name] = "find"
                if isinstance(st, ast.Assign) and isinstance(st.value, ast.Attribute) and st.value.attr in OPTIONAL_ATTRS:
                    opt_locals[name] = "text"
        for x in ast.walk(fn):
            if isinstance(x, (ast.FunctionDef, ast.Lambda)) and x is not fn:
                continue
            # (a) direct dereference of a find(...) call
            if isinstance(x, ast.Attribute) and isinstance(x.value, ast.Call) and isinstance(x.value.func, ast.Attribute) \
                    and x.value.func.attr in OPTIONAL_CALLS:
                n += 1
                subj = unparse(x.value)
                ok = _none_excluded(x, subj, fn)
                rep.add(rid, f"{mname}:{subj[:40]}.{x.attr}", ok,
                        f"`{subj}` returns None when the element is absent, and `.{x.attr}` is taken without a test: "
                        f"AttributeError on partial Doxygen XML instead of an empty docstring", f"{ci.mod.rel}:{x.lineno}")
            # (b) dereference of a local bound to an optional
            if isinstance(x, (ast.Attribute, ast.Subscript)) and isinstance(x.value, ast.Name) and x.value.id in opt_locals:
                if isinstance(x, ast.Attribute) and isinstance(x.ctx, ast.Store):
                    continue
                n += 1
                subj = x.value.id
                ok = _none_excluded(x, subj, fn)
                what = unparse(x)[:40]
                rep.add(rid, f"{mname}:{what}", ok,
                        f"`{subj}` may be None ({opt_locals[subj]} result) and is dereferenced as `{what}` without a test",
                        f"{ci.mod.rel}:{x.lineno}")
            # (c) method call on element.text:  X.text.strip()
            if isinstance(x, ast.Attribute) and isinstance(x.value, ast.Attribute) and x.value.attr in OPTIONAL_ATTRS \
                    and isinstance(parent(x), ast.Call):
                n += 1
                subj = unparse(x.value)
                ok = _none_excluded(x, subj, fn)
                rep.add(rid, f"{mname}:{subj[:40]}.{x.attr}()", ok,
                        f"`{subj}` is None for an empty element and `.{x.attr}()` is called on it without a test",
                        f"{ci.mod.rel}:{x.lineno}")
            # (d) attrib[...] without membership test
            if isinstance(x, ast.Subscript) and isinstance(x.value, ast.Attribute) and x.value.attr == "attrib" \
                    and isinstance(x.slice, ast.Constant):
                n += 1
                k = x.slice.value
                base = unparse(x.value)
                member = f"'{k}'in{base}".replace(" ", "")
                absent = f"'{k}'notin{base}".replace(" ", "")
                ok = any((t == member and pol) or (t == absent and not pol) for t, pol in _facts(x, fn))
                rep.add(rid, f"{mname}:{base}[{k!r}]", ok,
                        f"attribute {k!r} is optional in Doxygen XML; `{unparse(x)}` raises KeyError when it is missing",
                        f"{ci.mod.rel}:{x.lineno}")
    rep.units["optional_dereference_sites"] = n
    if n < min_sites:
        raise AnalysisError(f"{rep.prop}/{rid}: {n} optional-result sites, >= {min_sites} expected")


def rule_element_truthiness(ctx, rep: Report, rid="Q2"):
    """An xml.etree Element is falsy when it has no child elements, so presence of an optional
    element must be tested with `is (not) None`, never by truth value."""
    prog = ctx.prog
    ci = prog.cls("XMLDocParser")
    n = 0
    for mname, fn in sorted(ci.methods.items()):
        elem_locals = set()
        for name, sts in local_assignments(fn).items():
            for st in sts:
                if isinstance(st, ast.Assign) and isinstance(st.value, ast.Call) and isinstance(st.value.func, ast.Attribute) \
                        and st.value.func.attr == "find":
                    elem_locals.add(name)
                if isinstance(st, ast.Assign) and isinstance(st.value, ast.IfExp) and isinstance(st.value.body, ast.Call) \
                        and isinstance(st.value.body.func, ast.Attribute) and st.value.body.func.attr == "find":
                    elem_locals.add(name)

        def is_elem(e) -> bool:
            return (isinstance(e, ast.Call) and isinstance(e.func, ast.Attribute) and e.func.attr == "find") or \
                (isinstance(e, ast.Name) and e.id in elem_locals)

        tests = []
        for x in ast.walk(fn):
            if isinstance(x, (ast.If, ast.While, ast.IfExp)):
                tests.append(x.test)
            elif isinstance(x, ast.comprehension):
                tests += x.ifs
            elif isinstance(x, ast.Assert):
                tests.append(x.test)
            elif isinstance(x, ast.BoolOp):
                # `a or b` used as a value: every operand but the last is tested for truth
                tests += x.values[:-1]
            elif isinstance(x, ast.Call) and isinstance(x.func, ast.Name) and x.func.id == "bool" and len(x.args) == 1:
                tests.append(x.args[0])
        atoms = []
        for t in tests:
            stack = [t]
            while stack:
                e = stack.pop()
                if isinstance(e, ast.BoolOp):
                    stack += e.values
                elif isinstance(e, ast.UnaryOp) and isinstance(e.op, ast.Not):
                    stack.append(e.operand)
                else:
                    atoms.append(e)
        seen_atoms = set()
        for a in atoms:
            if id(a) in seen_atoms:
                continue
            seen_atoms.add(id(a))
            if is_elem(a):
                n += 1
                rep.add(rid, f"{mname}:truth value of {unparse(a)[:40]}", False,
                        f"`{unparse(a)}` is an Element (or None): an Element without child elements is *falsy*, so "
                        f"`<defval>1e-9</defval>` counts as absent; presence must be tested with `is not None`",
                        f"{ci.mod.rel}:{a.lineno}")
        # positive instances: explicit None tests on find results
        for x in ast.walk(fn):
            if isinstance(x, ast.Compare) and len(x.ops) == 1 and isinstance(x.ops[0], (ast.Is, ast.IsNot)) and is_elem(x.left):
                n += 1
                rep.add(rid, f"{mname}:{unparse(x)[:50]}", True, "presence tested against None", f"{ci.mod.rel}:{x.lineno}",
                        nontrivial=False)
    if n < 5:
        raise AnalysisError(f"{rep.prop}/{rid}: {n} presence tests of XML elements found, >= 5 expected")


def rule_unreadable_xml(ctx, rep: Report, rid="Q3"):
    prog = ctx.prog
    ci = prog.cls("XMLDocParser")
    fn = prog.method("XMLDocParser", "parse_xml")
    tries = [t for t in walk_no_nested(fn) if isinstance(t, ast.Try)]
    ok = False
    caught: Set[str] = set()
    for t in tries:
        if any(isinstance(c, ast.Call) and (dotted(c.func) or "").endswith("parse") for st in t.body for c in ast.walk(st)):
            for h in t.handlers:
                ts = h.type.elts if isinstance(h.type, ast.Tuple) else ([h.type] if h.type is not None else [])
                caught |= {(dotted(x) or unparse(x)).split(".")[-1] for x in ts}
                if h.type is None:
                    caught.add("BaseException")
                rets = [r for st in h.body for r in ast.walk(st) if isinstance(r, ast.Return)]
                if not rets or not all(isinstance(r.value, ast.Constant) and r.value.value is None for r in rets):
                    caught.add("<handler does not return None>")
    io_ok = bool(caught & {"OSError", "IOError", "EnvironmentError", "Exception", "BaseException"})
    parse_ok = bool(caught & {"ParseError", "SyntaxError", "Exception", "BaseException"})
    rep.add(rid, "parse_xml:unreadable or malformed XML yields None (empty docstring), not an error",
            io_ok and parse_ok and "<handler does not return None>" not in caught,
            f"handlers catch {sorted(caught)}: an index.xml that is a directory, unreadable (PermissionError) or otherwise "
            f"not openable raises an OSError that is not FileNotFoundError and aborts the whole wrap run",
            f"{ci.mod.rel}:{fn.lineno}")
    # callers treat None as "no docs"
    gm = prog.method("XMLDocParser", "get_member_defs")
    calls = [c for c in walk_no_nested(gm) if isinstance(c, ast.Call) and unparse(c.func) == "self.parse_xml"]
    tested = 0
    for c in calls:
        p = parent(c)
        if isinstance(p, ast.Assign) and isinstance(p.targets[0], ast.Name):
            v = p.targets[0].id
            if any(isinstance(i, ast.If) and unparse(i.test).replace(" ", "") in (f"not{v}", f"{v}isNone") for i in walk_no_nested(gm)):
                tested += 1
    rep.add(rid, "get_member_defs:tests every parse_xml result before use", tested == len(calls) and len(calls) >= 2,
            f"{tested}/{len(calls)} results tested", f"{ci.mod.rel}:{gm.lineno}")


def _split_facts(test: ast.expr, pol: bool) -> List[Tuple[ast.expr, bool]]:
    """What is known when `test` evaluated to `pol`: the conjuncts of a true `and`, the disjuncts of a false `or`
    (each false), the operand of a `not` with the polarity flipped; anything else only as a whole."""
    if isinstance(test, ast.UnaryOp) and isinstance(test.op, ast.Not):
        return _split_facts(test.operand, not pol)
    if isinstance(test, ast.BoolOp) and ((isinstance(test.op, ast.And) and pol) or (isinstance(test.op, ast.Or) and not pol)):
        out = []
        for v in test.values:
            out += _split_facts(v, pol)
        return out
    return [(test, pol)]


def _bounds_index(test: ast.expr, pol: bool, idx: str, seq: str) -> bool:
    """Does the fact establish idx < len(seq)?"""
    if not (isinstance(test, ast.Compare) and len(test.ops) == 1):
        return False
    l, op, r = unparse(test.left).replace(" ", ""), test.ops[0], unparse(test.comparators[0]).replace(" ", "")
    ln = f"len({seq})"
    if l == idx and r == ln:
        return (isinstance(op, ast.Lt) and pol) or (isinstance(op, ast.GtE) and not pol)
    if l == ln and r == idx:
        return (isinstance(op, ast.Gt) and pol) or (isinstance(op, ast.LtE) and not pol)
    return False


def rule_overload_counter(ctx, rep: Report, rid="Q4"):
    prog = ctx.prog
    ci = prog.cls("XMLDocParser")
    fn = prog.method("XMLDocParser", "extract_docstring")
    subs = [s for s in walk_no_nested(fn) if isinstance(s, ast.Subscript) and isinstance(s.value, ast.Name)
            and not isinstance(s.slice, (ast.Constant, ast.Slice))]
    n = 0
    for s in subs:
        idx = unparse(s.slice)
        seq = s.value.id
        n += 1
        gs = [t.replace(" ", "") for t, pol in guards_of(s, fn, include_exits=True) if pol]
        p = s
        inline = []
        while p is not None and p is not fn:
            q = parent(p)
            if isinstance(q, ast.IfExp) and q.body is p:
                inline.append(unparse(q.test))
            p = q
        facts = []
        for t, pol in guards_of(s, fn, include_exits=True):
            facts += _split_facts(ast.parse(t, mode="eval").body, pol)
        for t in inline:
            facts += _split_facts(ast.parse(t, mode="eval").body, True)
        bound = any(_bounds_index(f_, pol, idx, seq) for f_, pol in facts)
        # or the index is reduced modulo / min'ed where it is computed
        det = prog.method("XMLDocParser", "determine_documenting_index")
        clamp = any(isinstance(c, ast.Call) and unparse(c.func) == "min" for c in ast.walk(det)) or \
            any(isinstance(b, ast.BinOp) and isinstance(b.op, ast.Mod) for b in ast.walk(det)) or \
            any(isinstance(c, ast.Compare) and "len(member_defs)" in unparse(c) and "_memory" in unparse(c) for c in ast.walk(det))
        rep.add(rid, f"extract_docstring:{seq}[{idx}]:index bounded", bound or clamp,
                f"`{seq}[{idx}]`: the index is the per-signature overload counter, which grows with every request for "
                f"the same (class, method, argument names); only emptiness of `{seq}` is tested, so the "
                f"(len+1)-th request raises IndexError instead of yielding a docstring", f"{ci.mod.rel}:{s.lineno}")
    if n < 1:
        raise AnalysisError(f"{rep.prop}/{rid}: variable-index subscript not found in extract_docstring")


def _defval_test(e: ast.AST, var: str) -> Optional[bool]:
    """`<var>.find('defval') is not None` -> True, `... is None` -> False, anything else -> None."""
    if isinstance(e, ast.Compare) and len(e.ops) == 1 and isinstance(e.ops[0], (ast.Is, ast.IsNot)) \
            and isinstance(e.comparators[0], ast.Constant) and e.comparators[0].value is None \
            and isinstance(e.left, ast.Call) and isinstance(e.left.func, ast.Attribute) and e.left.func.attr == "find" \
            and unparse(e.left.func.value) == var and e.left.args and isinstance(e.left.args[0], ast.Constant) and e.left.args[0].value == "defval":
        return isinstance(e.ops[0], ast.IsNot)
    return None


def _counts_defaults(prog, ci, e: ast.AST) -> Optional[str]:
    """If `e` computes the number of elements of a collection that have a <defval> child (one per element), the text of
    the collection; None otherwise.  Forms: sum of 1/0 over a comprehension, sum(1 for .. if ..), len([.. if ..]), or
    a helper method whose body is the counting loop."""
    if isinstance(e, ast.Call) and isinstance(e.func, ast.Name) and e.func.id in ("sum", "len") and len(e.args) == 1 \
            and isinstance(e.args[0], (ast.ListComp, ast.GeneratorExp)) and len(e.args[0].generators) == 1:
        comp = e.args[0]
        g = comp.generators[0]
        if not isinstance(g.target, ast.Name):
            return None
        v = g.target.id
        if e.func.id == "sum" and isinstance(comp.elt, ast.IfExp) and not g.ifs and isinstance(comp.elt.body, ast.Constant) and isinstance(comp.elt.orelse, ast.Constant):
            t = _defval_test(comp.elt.test, v)
            if t is not None and (comp.elt.body.value, comp.elt.orelse.value) == ((1, 0) if t else (0, 1)):
                return unparse(g.iter)
        if len(g.ifs) == 1 and _defval_test(g.ifs[0], v) is True and \
                ((e.func.id == "sum" and isinstance(comp.elt, ast.Constant) and comp.elt.value == 1) or e.func.id == "len"):
            return unparse(g.iter)
        return None
    if isinstance(e, ast.Call) and isinstance(e.func, ast.Attribute) and unparse(e.func.value) in ("self", ci.qual) and len(e.args) == 1:
        h = prog.find_method(ci, e.func.attr)
        if h is None:
            return None
        hf = h[1]
        hp = [a.arg for a in hf.args.args if a.arg != "self"]
        loops = [l for l in walk_no_nested(hf) if isinstance(l, ast.For)]
        rets = [r.value for r in walk_no_nested(hf) if isinstance(r, ast.Return) and r.value is not None]
        if len(hp) == 1 and len(rets) == 1 and isinstance(rets[0], ast.Name) and len(loops) == 1 and isinstance(loops[0].target, ast.Name) \
                and unparse(loops[0].iter) == hp[0]:
            cnt = rets[0].id
            init = [st for st in hf.body if isinstance(st, ast.Assign) and unparse(st.targets[0]) == cnt and isinstance(st.value, ast.Constant) and st.value.value == 0]
            body = loops[0].body
            if init and len(body) == 1 and isinstance(body[0], ast.If) and not body[0].orelse and _defval_test(body[0].test, loops[0].target.id) is True \
                    and len(body[0].body) == 1 and isinstance(body[0].body[0], ast.AugAssign) and isinstance(body[0].body[0].op, ast.Add) \
                    and unparse(body[0].body[0].target) == cnt and isinstance(body[0].body[0].value, ast.Constant) and body[0].body[0].value.value == 1:
                return unparse(e.args[0])
            return None
        if len(hp) == 1 and len(rets) == 1:
            inner = _counts_defaults(prog, ci, rets[0])
            if inner == hp[0]:
                return unparse(e.args[0])
    return None


def _count_kind(prog, ci, fn, e: ast.AST, plist: str, la) -> str:
    """'total' for len(<param list>) (or a local bound to it), 'required' for total minus the number of parameters with a default."""
    def resolve(x):
        if isinstance(x, ast.Name):
            vs = [st.value for st in la.get(x.id, []) if isinstance(st, ast.Assign)]
            if len(vs) == 1:
                return vs[0]
        return x
    e = resolve(e)
    if unparse(e).replace(" ", "") == f"len({plist})":
        return "total"
    if isinstance(e, ast.BinOp) and isinstance(e.op, ast.Sub):
        left = resolve(e.left)
        if unparse(left).replace(" ", "") == f"len({plist})" and _counts_defaults(prog, ci, resolve(e.right)) == plist:
            return "required"
    return "?"


def _declared_name_of(prog, ci, e: ast.AST, elem_ok) -> bool:
    """`e` yields the declared-name element of the parameter picked by elem_ok: `<elem>.find('declname')` (the fallback to
    <defname> is judged by the polarity rule), or a helper that returns exactly that for its argument."""
    if isinstance(e, ast.Call) and isinstance(e.func, ast.Attribute) and e.func.attr == "find" and e.args and isinstance(e.args[0], ast.Constant) \
            and e.args[0].value == "declname":
        return bool(elem_ok(e.func.value))
    if isinstance(e, ast.Call) and isinstance(e.func, ast.Attribute) and unparse(e.func.value) in ("self", ci.qual) and len(e.args) == 1 and elem_ok(e.args[0]):
        h = prog.find_method(ci, e.func.attr)
        if h is None:
            return False
        hf = h[1]
        hp = [a.arg for a in hf.args.args if a.arg != "self"]
        firsts = [st.value for st in walk_no_nested(hf) if isinstance(st, (ast.Assign, ast.Return)) and st.value is not None
                  and isinstance(st.value, ast.Call) and isinstance(st.value.func, ast.Attribute) and st.value.func.attr == "find"
                  and st.value.args and isinstance(st.value.args[0], ast.Constant) and st.value.args[0].value == "declname"]
        return len(hp) == 1 and bool(firsts) and all(unparse(x.func.value) == hp[0] for x in firsts)
    return False


def _xpath_steps(path: str) -> List[Tuple[str, List[str]]]:
    """[(tag, [predicate, ...])] of an ElementTree path (the subset ElementTree implements)."""
    steps: List[Tuple[str, List[str]]] = []
    i, n = 0, len(path)
    tag, preds = "", []
    while i < n:
        ch = path[i]
        if ch == "/":
            steps.append((tag, preds))
            tag, preds = "", []
            i += 1
        elif ch == "[":
            j = i + 1
            quote = None
            while j < n and (quote is not None or path[j] != "]"):
                if path[j] in "'\"":
                    quote = None if quote == path[j] else (path[j] if quote is None else quote)
                j += 1
            preds.append(path[i + 1:j])
            i = j + 1
        else:
            tag += ch
            i += 1
    steps.append((tag, preds))
    return steps


def rule_lookup_provenance(ctx, rep: Report, rid="Q5"):
    prog = ctx.prog
    ci = prog.cls("XMLDocParser")
    gm = prog.method("XMLDocParser", "get_member_defs")
    ps = func_params(gm)[1:]          # xml_folder, cpp_class, cpp_method
    queries = {}
    for c in walk_no_nested(gm):
        if isinstance(c, ast.Call) and isinstance(c.func, ast.Attribute) and c.func.attr in ("find", "findall") and c.args \
                and isinstance(c.args[0], ast.JoinedStr):
            names = [unparse(v.value) for v in c.args[0].values if isinstance(v, ast.FormattedValue)]
            queries[c.func.attr] = (names, unparse(c.args[0]))
    rep.add(rid, "index query selects the compound by the *class* name", queries.get("find", ([], ""))[0] == [ps[1]],
            f"{queries.get('find')}", f"{ci.mod.rel}:{gm.lineno}")
    rep.add(rid, "member query selects members by the *method* name", queries.get("findall", ([], ""))[0] == [ps[2]],
            f"{queries.get('findall')}", f"{ci.mod.rel}:{gm.lineno}")
    # the shape of the index query: Doxygen lists a wrapped type under the kind it was *declared* with (class, struct, union,
    # interface ...), the dialect has only `class`: the compound is selected by its name alone
    for c in walk_no_nested(gm):
        if isinstance(c, ast.Call) and isinstance(c.func, ast.Attribute) and c.func.attr == "find" and c.args and isinstance(c.args[0], ast.JoinedStr):
            lit = "".join(v.value if isinstance(v, ast.Constant) else "\x00" for v in c.args[0].values)
            steps = [x for x in _xpath_steps(lit) if x[0] not in (".", "")]
            preds = [p.replace(" ", "") for _, ps_ in steps for p in ps_]
            ok = len(steps) == 1 and steps[0][0] in ("*", "compound") and preds in (["name='\x00'"], ['name="\x00"'])
            extra = [p for p in preds if not p.startswith("name=")]
            rep.add(rid, "index query selects the compound by its name alone (whatever kind Doxygen filed it under)", ok,
                    f"query {unparse(c.args[0])[:70]}: step(s) {[t for t, _ in steps]}, further condition(s) {extra}: a wrapped type that Doxygen lists "
                    f"under another kind or position (a C++ `struct` is kind=\"struct\") is not found and all its bindings get an empty docstring",
                    f"{ci.mod.rel}:{c.lineno}")
    ff = prog.method("XMLDocParser", "filter_member_defs")
    fps = func_params(ff)[1:]            # candidates, given names
    names_p = fps[1]
    outer = next((l for l in ff.body if isinstance(l, ast.For) and unparse(l.iter) == fps[0]), None)
    if outer is None:
        raise AnalysisError("filter_member_defs: loop over the candidates not found")
    cand = outer.target.id
    la = local_assignments(ff)

    def value_of(name):
        vs = [st.value for st in la.get(name, []) if isinstance(st, ast.Assign)]
        return unparse(vs[0]).replace(" ", "") if len(vs) == 1 else ""
    # arity
    def expr_of(name) -> Optional[ast.AST]:
        vs = [st.value for st in la.get(name, []) if isinstance(st, ast.Assign)]
        return vs[0] if len(vs) == 1 else None
    arity = False
    arity_detail = None
    plist = [n for n in la if value_of(n) == f"{cand}.findall('param')"]
    for i in ast.walk(outer):
        if isinstance(i, ast.If) and isinstance(i.test, ast.BoolOp) and isinstance(i.test.op, ast.And) and len(i.test.values) == 2 \
                and any(isinstance(x, ast.Continue) for x in i.body) and plist:
            kinds = []
            for c in i.test.values:
                if isinstance(c, ast.Compare) and len(c.ops) == 1 and isinstance(c.ops[0], ast.NotEq) \
                        and unparse(c.left).replace(" ", "") == f"len({names_p})":
                    e = c.comparators[0]
                    e = expr_of(e.id) if isinstance(e, ast.Name) and expr_of(e.id) is not None else e
                    kinds.append(_count_kind(prog, ci, ff, e, plist[0], la))
            arity = sorted(kinds) == ["required", "total"]
        # the same condition written as a membership test: `len(names) not in (required, total)`
        if isinstance(i, ast.If) and isinstance(i.test, ast.Compare) and len(i.test.ops) == 1 and isinstance(i.test.ops[0], ast.NotIn) \
                and unparse(i.test.left).replace(" ", "") == f"len({names_p})" and isinstance(i.test.comparators[0], (ast.Tuple, ast.List, ast.Set)) \
                and any(isinstance(x, ast.Continue) for x in i.body) and plist and len(i.test.comparators[0].elts) == 2:
            kinds = []
            for e in i.test.comparators[0].elts:
                e = expr_of(e.id) if isinstance(e, ast.Name) and expr_of(e.id) is not None else e
                kinds.append(_count_kind(prog, ci, ff, e, plist[0], la))
            arity = arity or sorted(kinds) == ["required", "total"]
    # ... or any other spelling of the same test: the condition under which a candidate is skipped, read as a predicate over
    # (given count N, required count R, total count T), has to be exactly `N != R and N != T` for all 0 <= R <= T <= 3, 0 <= N <= 4
    if not arity and plist:
        def classify(e):
            if unparse(e).replace(" ", "") == f"len({names_p})":
                return "N"
            e2 = expr_of(e.id) if isinstance(e, ast.Name) and expr_of(e.id) is not None else e
            k = _count_kind(prog, ci, ff, e2, plist[0], la)
            return {"required": "R", "total": "T"}.get(k)

        def ev(e, env):
            k = classify(e) if isinstance(e, (ast.Name, ast.Call, ast.BinOp)) else None
            if k is not None:
                return env[k]
            if isinstance(e, ast.Constant) and isinstance(e.value, (int, bool)):
                return e.value
            if isinstance(e, ast.UnaryOp) and isinstance(e.op, ast.Not):
                v = ev(e.operand, env)
                return None if v is None else not v
            if isinstance(e, ast.BoolOp):
                vs = [ev(v, env) for v in e.values]
                if any(v is None for v in vs):
                    return None
                return all(vs) if isinstance(e.op, ast.And) else any(vs)
            if isinstance(e, (ast.Tuple, ast.List, ast.Set)):
                vs = [ev(v, env) for v in e.elts]
                return None if any(v is None for v in vs) else vs
            if isinstance(e, ast.Compare):
                left = ev(e.left, env)
                res = True
                for op, right in zip(e.ops, e.comparators):
                    r = ev(right, env)
                    if left is None or r is None:
                        return None
                    ok_ = {ast.Eq: lambda a, b: a == b, ast.NotEq: lambda a, b: a != b, ast.Lt: lambda a, b: a < b, ast.LtE: lambda a, b: a <= b,
                           ast.Gt: lambda a, b: a > b, ast.GtE: lambda a, b: a >= b, ast.In: lambda a, b: a in b, ast.NotIn: lambda a, b: a not in b}.get(type(op))
                    if ok_ is None:
                        return None
                    res = res and ok_(left, r)
                    left = r
                return res
            return None
        for i in ast.walk(outer):
            if not (isinstance(i, ast.If) and any(isinstance(x, ast.Continue) for x in i.body) and f"len({names_p})" in unparse(i.test).replace(" ", "")):
                continue
            table = []
            for t_ in range(0, 4):
                for r_ in range(0, t_ + 1):
                    for n_ in range(0, 5):
                        table.append((ev(i.test, {"N": n_, "R": r_, "T": t_}), n_ != r_ and n_ != t_))
            if all(got is not None for got, _ in table):
                arity = all(bool(got) == want for got, want in table)
                if not arity:
                    wrong = [(n_, r_, t_) for t_ in range(0, 4) for r_ in range(0, t_ + 1) for n_ in range(0, 5)
                             if bool(ev(i.test, {"N": n_, "R": r_, "T": t_})) != (n_ != r_ and n_ != t_)][:2]
                    arity_detail = (f"`{unparse(i.test)[:70]}` keeps a candidate for (given, required, total) = {wrong}: a binding with a count strictly between "
                                    f"required and total matches an overload that is never wrapped with that many arguments and can take its text")
    if not arity and _member_filter_verdict(ctx)[0] is not None:
        arity = True             # decided by evaluation (Q11)
    rep.add(rid, "candidates kept only if the parameter count equals the given count (required or total)", arity,
            arity_detail or
            "arity filter `len(names) != required and len(names) != total -> skip` not found (total = number of <param>, required = total minus "
            "those with a <defval>)", f"{ci.mod.rel}:{ff.lineno}")
    # names at the same index: `for i, n in enumerate(names)` with params[i], or `for p, n in zip(params, names)`;
    # in filter_member_defs itself or in a helper it calls with the given names
    names_ok = False
    scopes = [(ff, names_p)]
    for c in ast.walk(outer):
        if isinstance(c, ast.Call) and isinstance(c.func, ast.Attribute) and unparse(c.func.value) == "self":
            h = prog.find_method(ci, c.func.attr)
            if h is None:
                continue
            try:
                b = bind_call(h[1], c, drop_self=True)
            except AnalysisError:
                continue
            for pn, av in b.items():
                if isinstance(av, ast.Name) and av.id == names_p:
                    scopes.append((h[1], pn))
    for f_, np_ in scopes:
        la_ = local_assignments(f_)
        for l in ast.walk(f_):
            if not (isinstance(l, ast.For) and isinstance(l.target, ast.Tuple) and len(l.target.elts) == 2
                    and all(isinstance(t, ast.Name) for t in l.target.elts) and isinstance(l.iter, ast.Call)):
                continue
            fname = unparse(l.iter.func)
            a_, b_ = [t.id for t in l.target.elts]
            if fname == "enumerate" and len(l.iter.args) == 1 and unparse(l.iter.args[0]) == np_:
                n_var, elem_ok = b_, (lambda x, i_=a_: isinstance(x, ast.Subscript) and unparse(x.slice) == i_)
            elif fname == "zip" and len(l.iter.args) == 2 and unparse(l.iter.args[1]) == np_:
                n_var, elem_ok = b_, (lambda x, e_=a_: isinstance(x, ast.Name) and x.id == e_)
            elif fname == "zip" and len(l.iter.args) == 2 and unparse(l.iter.args[0]) == np_:
                n_var, elem_ok = a_, (lambda x, e_=b_: isinstance(x, ast.Name) and x.id == e_)
            else:
                continue
            for c in ast.walk(l):
                if isinstance(c, ast.Compare) and len(c.ops) == 1 and isinstance(c.ops[0], ast.NotEq):
                    l_, r_ = unparse(c.left), unparse(c.comparators[0])
                    other = r_ if l_ == n_var else (l_ if r_ == n_var else None)
                    if other and other.endswith(".text"):
                        srcs = [st.value for st in la_.get(other[:-5], []) if isinstance(st, ast.Assign)]
                        rejecting = enclosing(c, ast.If) is not None and any(
                            (isinstance(x, ast.Assign) and isinstance(x.value, ast.Constant) and x.value.value is True) or
                            (isinstance(x, ast.Return) and isinstance(x.value, ast.Constant) and x.value.value is False)
                            for x in enclosing(c, ast.If).body)
                        if any(_declared_name_of(prog, ci, x, elem_ok) for x in srcs) and rejecting:
                            names_ok = True
    if not names_ok and _member_filter_verdict(ctx)[0] is not None:
        names_ok = True          # written in a way the recogniser does not know; Q11 decides it by running the function on samples
    rep.add(rid, "candidates kept only if every given name equals the declared name at the same index", names_ok,
            "name filter `given name != declared name at the same index -> eliminate` not found", f"{ci.mod.rel}:{ff.lineno}")
    rets = [r for r in walk_no_nested(ff) if isinstance(r, ast.Return) and isinstance(r.value, ast.Tuple)]
    kept_list = unparse(rets[-1].value.elts[0]) if rets else "?"
    keep = [c for c in ast.walk(outer) if isinstance(c, ast.Call) and unparse(c.func) == f"{kept_list}.append" and unparse(c.args[0]) == cand]
    skips = [i for i in outer.body if isinstance(i, ast.If) and any(isinstance(x, ast.Continue) for x in i.body)]
    unfiltered = [r for r in rets if any(isinstance(x, ast.Name) and x.id == fps[0] for x in ast.walk(r.value.elts[0]))]
    rep.add(rid, "every answer of the filter is the filtered list", bool(rets) and not unfiltered and all(unparse(r.value.elts[0]) == kept_list for r in rets),
            f"return(s) at line {[r.lineno for r in unfiltered] or [r.lineno for r in rets if unparse(r.value.elts[0]) != kept_list]} hand back `{fps[0]}` "
            f"(or something else than `{kept_list}`) without the arity and name filters: a binding without arguments gets the text of whichever "
            f"same-named overload comes first in the XML", f"{ci.mod.rel}:{ff.lineno}")
    rep.add(rid, "a rejected candidate is skipped before it can be kept",
            len(keep) == 1 and len(skips) >= 2 and all(s_.lineno < keep[0].lineno for s_ in skips),
            f"{len(skips)} skip tests before {len(keep)} append(s)", f"{ci.mod.rel}:{ff.lineno}")
    det = prog.method("XMLDocParser", "determine_documenting_index")
    dps = func_params(det)[1:]
    from .prog import inline_locals
    kslices = [n_.slice for n_ in walk_no_nested(det) if isinstance(n_, ast.Subscript) and unparse(n_.value) == "self._memory"] + \
              [c.args[0] for c in walk_no_nested(det) if isinstance(c, ast.Call) and unparse(c.func) in ("self._memory.get", "self._memory.setdefault") and c.args]
    kexprs = {unparse(inline_locals(det, k)): inline_locals(det, k) for k in kslices}
    key = next(iter(kexprs.values())) if len(kexprs) == 1 else None
    knames = [unparse(v.value) for v in key.values if isinstance(v, ast.FormattedValue)] if isinstance(key, ast.JoinedStr) else []
    rep.add(rid, "overload memory keyed by class, method and argument names",
            len(knames) == 3 and knames[0] == dps[0] and knames[1] == dps[1] and dps[2] in knames[2], f"key fields {knames} ({len(kexprs)} key spelling(s))",
            f"{ci.mod.rel}:{det.lineno}")
    ex = prog.method("XMLDocParser", "extract_docstring")
    order = []
    for st in ex.body:
        for c in ast.walk(st):
            if isinstance(c, ast.Call) and isinstance(c.func, ast.Attribute) and isinstance(c.func.value, ast.Name) and c.func.value.id == "self" \
                    and c.func.attr in ("get_member_defs", "filter_member_defs", "determine_documenting_index", "get_formatted_docstring"):
                order.append(c.func.attr)
    rep.add(rid, "extract_docstring:lookup -> filter -> pick overload -> format",
            order == ["get_member_defs", "filter_member_defs", "determine_documenting_index", "get_formatted_docstring"], f"{order}",
            f"{ci.mod.rel}:{ex.lineno}")


def rule_docstring_untouched(ctx, rep: Report, rid="Q6"):
    """Once the literal sits in the binding text, nothing rewrites that text as a whole: a later
    `text.replace(a, b)` also rewrites occurrences of `a` inside the documentation (a docstring of print() that
    mentions `self->print`).  A replacement limited to the first occurrence is accepted when, in the template,
    the replaced text precedes the docstring slot."""
    prog = ctx.prog
    ci = prog.cls("PybindWrapper")
    fn = prog.method("PybindWrapper", "_wrap_method")
    tpl = find_tpl(ctx, fn, {"docstring", "py_args_names"})
    if tpl is None:
        raise AnalysisError("_wrap_method: template with a {docstring} slot not found")
    # the local that holds the assembled binding
    holder = None
    for st in walk_no_nested(fn):
        if isinstance(st, ast.Assign) and len(st.targets) == 1 and isinstance(st.targets[0], ast.Name) and \
                any(isinstance(k, ast.keyword) and k.arg == "docstring" for c in ast.walk(st.value) if isinstance(c, ast.Call) for k in c.keywords):
            holder = st.targets[0].id
    if holder is None:
        raise AnalysisError("_wrap_method: the assembled binding is not bound to a local")
    n = 0

    def judge(f, var, where):
        nonlocal n
        for c in walk_no_nested(f):
            if isinstance(c, ast.Call) and isinstance(c.func, ast.Attribute) and isinstance(c.func.value, ast.Name) and c.func.value.id == var \
                    and c.func.attr in ("replace", "translate", "expandtabs", "title", "lower", "upper", "strip", "format"):
                n += 1
                limited = c.func.attr == "replace" and len(c.args) == 3 and isinstance(c.args[2], ast.Constant) and c.args[2].value == 1
                before = False
                if limited and isinstance(c.args[0], ast.Constant) and isinstance(c.args[0].value, str):
                    # the replaced text occurs in front of the docstring slot in the assembled binding
                    lit = tpl.deep_literal("\x00")
                    keys = [s.key for s in tpl.slots()]
                    head = "".join(p if isinstance(p, str) else (p.sub.deep_literal("\x00") if p.sub is not None else "\x00")
                                   for p in tpl.parts[:next(i for i, p in enumerate(tpl.parts) if not isinstance(p, str) and p.key == "docstring")])
                    needle = c.args[0].value
                    # text that can appear in front of the docstring: literal parts plus every string constant the
                    # expressions bound to the earlier slots are built from (conditional pieces such as the caller)
                    pieces = [head]

                    def consts(e, depth=3):
                        for x in ast.walk(e):
                            if isinstance(x, ast.Constant) and isinstance(x.value, str):
                                pieces.append(x.value)
                            elif isinstance(x, ast.Name) and depth > 0:
                                for st in local_assignments(fn).get(x.id, []):
                                    if isinstance(st, ast.Assign):
                                        consts(st.value, depth - 1)
                    for p_ in tpl.parts:
                        if not isinstance(p_, str):
                            if p_.key == "docstring":
                                break
                            if p_.expr is not None:
                                consts(p_.expr)
                    before = any((len(x) >= 4 and needle.startswith(x)) or needle in x for x in pieces if x.strip())
                rep.add(rid, f"{where}:{unparse(c.func)}({unparse(c.args[0])[:30] if c.args else ''}..) cannot reach the documentation text",
                        limited and before,
                        f"`{unparse(c)[:70]}` rewrites the whole binding text, documentation literal included: a docstring containing "
                        f"{unparse(c.args[0]) if c.args else 'the pattern'} is altered (and the output with XML is no longer the output "
                        f"without XML plus literals)", f"{ci.mod.rel}:{c.lineno}")
            if isinstance(c, ast.Call) and unparse(c.func) in ("re.sub", "re.subn") and any(isinstance(a, ast.Name) and a.id == var for a in c.args):
                n += 1
                rep.add(rid, f"{where}:re.sub over the assembled binding", False, "a regular-expression rewrite of the whole binding text "
                        "also rewrites the documentation literal", f"{ci.mod.rel}:{c.lineno}")
    judge(fn, holder, "_wrap_method")
    for c in walk_no_nested(fn):
        if isinstance(c, ast.Call) and isinstance(c.func, ast.Attribute) and unparse(c.func.value) == "self":
            pos = [i for i, a in enumerate(c.args) if isinstance(a, ast.Name) and a.id == holder]
            kw = [k.arg for k in c.keywords if isinstance(k.value, ast.Name) and k.value.id == holder]
            callee = prog.find_method(ci, c.func.attr)
            if callee is None or not (pos or kw):
                continue
            ps = [a.arg for a in callee[1].args.args if a.arg != "self"]
            for pn in [ps[i] for i in pos if i < len(ps)] + kw:
                judge(callee[1], pn, c.func.attr)
    rep.add(rid, "uses of the assembled binding text inspected", True, f"{n} whole-text operation(s)", f"{ci.mod.rel}:{fn.lineno}", nontrivial=False)
    if n < 1:
        raise AnalysisError(f"{rep.prop}/{rid}: the print() redirect rewrite was not found")


def _helper_closure(prog, ci, fn) -> list:
    """fn and every method of its class it reaches through `self.<h>(...)` calls (helpers of helpers included)."""
    out, work = [], [fn]
    while work:
        f_ = work.pop(0)
        if any(f_ is g for g in out):
            continue
        out.append(f_)
        for c in ast.walk(f_):
            if isinstance(c, ast.Call) and isinstance(c.func, ast.Attribute) and unparse(c.func.value) in ("self", ci.name):
                h = prog.find_method(ci, c.func.attr)
                if h is not None and h[1].name != "print_if_verbose":
                    work.append(h[1])
    return out


def rule_filter_polarities(ctx, rep: Report, rid="Q5"):
    """Polarity of the small decisions inside the overload filter and the overload counter - each of them flips the
    documentation of a binding silently when inverted:
    (a) a parameter is *optional* iff it has a <defval>: required = total - #(param.find('defval') is not None);
    (b) the declared name is <declname>, and <defname> only when there is no <declname> (fallback under `is None`);
    (c) the first request for a signature gets overload 0 and is remembered as 0; every further request gets the remembered
        index + 1 (no overload is skipped or served twice)."""
    prog = ctx.prog
    ci = prog.cls("XMLDocParser")
    ff = prog.method("XMLDocParser", "filter_member_defs")
    loc = f"{ci.mod.rel}:{ff.lineno}"
    # (a)
    scopes = _helper_closure(prog, ci, ff)
    opt_tests = []
    for f_ in scopes:
        for x in ast.walk(f_):
            if isinstance(x, ast.Compare) and len(x.ops) == 1 and isinstance(x.ops[0], (ast.Is, ast.IsNot)) and "defval" in unparse(x.left) \
                    and isinstance(x.comparators[0], ast.Constant) and x.comparators[0].value is None:
                # which value does the enclosing conditional count for "has a default"?
                p_ = parent(x)
                counted = None
                if isinstance(p_, ast.IfExp) and p_.test is x and isinstance(p_.body, ast.Constant) and isinstance(p_.orelse, ast.Constant):
                    counted = (p_.body.value, p_.orelse.value)
                elif isinstance(p_, ast.comprehension):
                    counted = (1, 0)
                elif isinstance(p_, ast.If) and p_.test is x and not p_.orelse and len(p_.body) == 1 and isinstance(p_.body[0], ast.AugAssign) \
                        and isinstance(p_.body[0].op, ast.Add) and isinstance(p_.body[0].value, ast.Constant):
                    counted = (p_.body[0].value.value, 0)      # counting loop: `if <has default>: n += 1`
                has_default_counts = None
                if counted is not None:
                    yes, no = counted
                    # the count is a number of parameters: a parameter with a default counts 1, one without counts 0
                    has_default_counts = ((yes, no) == (1, 0)) if isinstance(x.ops[0], ast.IsNot) else ((yes, no) == (0, 1))
                opt_tests.append((x, has_default_counts))
    rep.add(rid, "arity:a parameter counts as optional exactly when it has a <defval>", bool(opt_tests) and all(h is True for _, h in opt_tests),
            f"{[(unparse(x), h) for x, h in opt_tests]}: with the test inverted the *required* parameters are subtracted, the arity filter keeps "
            f"the wrong candidates and bindings with optional parameters get another overload's text (or none)", loc)
    # (b)
    fb_ok, fb_detail = False, "no fallback to <defname> found"
    for f_ in scopes:
        la_ = local_assignments(f_)
        for var, sts in la_.items():
            vals = [st for st in sts if isinstance(st, ast.Assign) and isinstance(st.value, ast.Call) and isinstance(st.value.func, ast.Attribute)
                    and st.value.func.attr == "find" and st.value.args and isinstance(st.value.args[0], ast.Constant)]
            tags = [st.value.args[0].value for st in vals]
            if "declname" in tags and "defname" in tags:
                d1 = next(st for st in vals if st.value.args[0].value == "declname")
                d2 = next(st for st in vals if st.value.args[0].value == "defname")
                g = [(t.replace(" ", ""), pol) for t, pol in guards_of(d2, f_, include_exits=False)]
                fb_ok = d1.lineno < d2.lineno and not guards_of(d1, f_, include_exits=False)[-1:] == [(f"{var} is None", True)] and \
                    g[-1:] == [(f"{var}isNone", True)]
                fb_detail = f"{var}: declname at line {d1.lineno}, defname at line {d2.lineno} under {g[-1:]}"
    if not fb_ok and _member_filter_verdict(ctx)[0] is not None:
        fb_ok = True             # decided by evaluation (Q11)
    rep.add(rid, "names:<declname> is the declared name, <defname> only replaces a missing one", fb_ok,
            fb_detail + ": with the fallback taken when <declname> *is* present, every named parameter is looked up under <defname>, nothing "
            "matches and all docstrings of methods with parameters come out empty", loc)
    # (c)
    det = prog.method("XMLDocParser", "determine_documenting_index")
    stores = [st for st in walk_no_nested(det) if isinstance(st, (ast.Assign, ast.AugAssign)) and any(
        isinstance(t, ast.Subscript) and unparse(t.value) == "self._memory" for t in (st.targets if isinstance(st, ast.Assign) else [st.target]))]
    first_zero = any(isinstance(st, ast.Assign) and isinstance(st.value, ast.Constant) and st.value.value == 0 for st in stores) or \
        any(isinstance(st, ast.Assign) and "get(" in unparse(inline_locals(det, st.value)) and ", -1) + 1" in unparse(inline_locals(det, st.value)) for st in stores)
    step_one = any(isinstance(st, ast.AugAssign) and isinstance(st.op, ast.Add) and isinstance(st.value, ast.Constant) and st.value.value == 1 for st in stores) or \
        any(isinstance(st, ast.Assign) and ", -1) + 1" in unparse(inline_locals(det, st.value)) for st in stores)
    init0 = [st for st in walk_no_nested(det) if isinstance(st, ast.Assign) and isinstance(st.targets[0], ast.Name) and isinstance(st.value, ast.Constant)
             and not isinstance(st.value.value, str)]
    start_ok = all(st.value.value == 0 for st in init0) or not init0
    # the counter is engaged as soon as two candidates are indistinguishable: a guard on the number of candidates must hold for 2
    dps = func_params(det)
    for st in walk_no_nested(det):
        if isinstance(st, ast.If) and any(s_ in ast.walk(st) for s_ in stores):
            for cmp_ in [c for c in ast.walk(st.test) if isinstance(c, ast.Compare) and len(c.ops) == 1]:
                l_, r_ = cmp_.left, cmp_.comparators[0]
                is_len = lambda e: isinstance(e, ast.Call) and unparse(e.func) == "len" and e.args and isinstance(e.args[0], ast.Name) and e.args[0].id in dps
                if is_len(l_) and isinstance(r_, ast.Constant) and isinstance(r_.value, int):
                    a_, b_ = 2, r_.value
                elif is_len(r_) and isinstance(l_, ast.Constant) and isinstance(l_.value, int):
                    a_, b_ = l_.value, 2
                else:
                    continue
                op_ = cmp_.ops[0]
                holds = {ast.Gt: a_ > b_, ast.GtE: a_ >= b_, ast.Lt: a_ < b_, ast.LtE: a_ <= b_, ast.Eq: a_ == b_, ast.NotEq: a_ != b_}.get(type(op_))
                if holds is None:
                    continue
                pol_ok = holds if any(s_ in [y for b in st.body for y in ast.walk(b)] for s_ in stores) else not holds
                a1, b1 = (1, b_) if is_len(l_) else (a_, 1)
                holds1 = {ast.Gt: a1 > b1, ast.GtE: a1 >= b1, ast.Lt: a1 < b1, ast.LtE: a1 <= b1, ast.Eq: a1 == b1, ast.NotEq: a1 != b1}.get(type(op_))
                single_ok = (not holds1) if any(s_ in [y for b in st.body for y in ast.walk(b)] for s_ in stores) else holds1
                rep.add(rid, "overload counter:not engaged for a single candidate", bool(single_ok),
                        f"`{unparse(cmp_)}` lets the counter run when only one member matches: a second binding with the same class, method and "
                        f"parameter names (another instantiation of a templated method, say) is handed index 1, which does not exist, and gets no text",
                        f"{ci.mod.rel}:{st.lineno}")
                rep.add(rid, "overload counter:engaged for two indistinguishable candidates", pol_ok,
                        f"`{unparse(cmp_)}` guards the counter and is false for two candidates: both requests for a pair of overloads with the "
                        f"same parameter names get overload 0 - the second binding carries the first one's documentation", f"{ci.mod.rel}:{st.lineno}")
    # what is handed back for a further request is what was just remembered
    rnames = {r.value.id for r in walk_no_nested(det) if isinstance(r, ast.Return) and isinstance(r.value, ast.Name)}
    for st in stores:
        if isinstance(st, ast.AugAssign):
            blk = parent(st)
            body = getattr(blk, "body", [])
            later = body[body.index(st) + 1:] if st in body else []
            reads_back = any(isinstance(x, ast.Assign) and len(x.targets) == 1 and isinstance(x.targets[0], ast.Name) and x.targets[0].id in rnames
                             and "self._memory[" in unparse(x.value) for x in later) or \
                any(isinstance(x, ast.Return) and x.value is not None and "self._memory[" in unparse(x.value) for x in later)
            rep.add(rid, "overload counter:a further request is answered with the index just remembered", reads_back,
                    f"after `{unparse(st)}` the returned index is not read back from the memory: every request gets overload 0 and the second binding "
                    f"of a pair of overloads with the same parameter names carries the first one's text", f"{ci.mod.rel}:{st.lineno}")
    rets = [r.value for r in walk_no_nested(det) if isinstance(r, ast.Return) and r.value is not None]
    rep.add(rid, "overload counter:first request -> 0 (remembered as 0), each further request -> +1", first_zero and step_one and start_ok and bool(rets),
            f"stores {[unparse(st)[:50] for st in stores]}; initial index {[unparse(st) for st in init0]}: any other start or step skips an overload or "
            f"serves one twice", f"{ci.mod.rel}:{det.lineno}")


def rule_names_confirmed(ctx, rep: Report, rid="Q5"):
    """A candidate member survives the name filter only if *every* requested argument name was compared equal to the
    candidate's parameter name.  In the loop over the requested names, every path through the body either marks the
    candidate as eliminated (a flag set to a constant, `break`, `return`) or passes the false side of
    `arg != param.text` / the true side of `arg == param.text`.  A path that falls through without either (a parameter
    whose name could not be found and is silently skipped) lets a member with different parameters be documented."""
    prog = ctx.prog
    ci = prog.cls("XMLDocParser")
    ff = prog.method("XMLDocParser", "filter_member_defs")
    scopes = _helper_closure(prog, ci, ff)
    found = 0

    def elim_value(h) -> Optional[bool]:
        """The truth value of helper h's answer under which filter_member_defs drops the candidate (`if not self.h(..): continue`)."""
        for i_ in ast.walk(ff):
            if not isinstance(i_, ast.If) or not any(isinstance(x, ast.Continue) for x in i_.body):
                continue
            for t, p_ in _split_facts(i_.test, True):
                if isinstance(t, ast.Call) and isinstance(t.func, ast.Attribute) and t.func.attr == h.name:
                    return p_
        return None
    for f_ in scopes:
        ps = set(func_params(f_))
        for loop in [x for x in ast.walk(f_) if isinstance(x, ast.For)]:
            it = loop.iter
            if isinstance(it, ast.Call) and unparse(it.func) in ("enumerate", "zip") and it.args:
                srcs = [a for a in it.args]
            else:
                srcs = [it]
            if not any(isinstance(a, ast.Name) and a.id in ps and "arg" in a.id for a in srcs):
                continue
            tnames = {x.id for x in ast.walk(loop.target) if isinstance(x, ast.Name)}
            cmps = [c for c in ast.walk(loop) if isinstance(c, ast.Compare) and len(c.ops) == 1 and isinstance(c.ops[0], (ast.Eq, ast.NotEq))
                    and any(isinstance(s_, ast.Name) and s_.id in tnames for s_ in (c.left, c.comparators[0]))]
            if not cmps:
                continue
            found += 1
            keys = {unparse(c.left) + "|" + unparse(c.comparators[0]) for c in cmps}
            bad: List[int] = []
            # flags set before the loop: only leaving the initial value marks the candidate
            initial = {st.targets[0].id: st.value.value for st in walk_no_nested(f_) if isinstance(st, ast.Assign) and len(st.targets) == 1
                       and isinstance(st.targets[0], ast.Name) and isinstance(st.value, ast.Constant) and isinstance(st.value.value, bool)
                       and st.lineno < loop.lineno and enclosing(st, ast.For) is enclosing(loop, ast.For)}

            def walk(stmts, confirmed, nxt):
                """nxt: continuation (list of statement lists) to run after `stmts`."""
                for i, st in enumerate(stmts):
                    if isinstance(st, ast.If):
                        rest = [stmts[i + 1:]] + nxt
                        for pol, blk in ((True, st.body), (False, st.orelse)):
                            c2 = confirmed
                            for t, p_ in _split_facts(st.test, pol):
                                if isinstance(t, ast.Compare) and len(t.ops) == 1 and unparse(t.left) + "|" + unparse(t.comparators[0]) in keys:
                                    if (isinstance(t.ops[0], ast.Eq) and p_) or (isinstance(t.ops[0], ast.NotEq) and not p_):
                                        c2 = True
                            walk(blk, c2, rest)
                        return
                    if isinstance(st, ast.Return) and f_ is not ff:
                        # a helper answers for the whole candidate: inside the loop only the eliminating answer may be given
                        ev = elim_value(f_)
                        if not (isinstance(st.value, ast.Constant) and ev is not None and bool(st.value.value) == ev):
                            bad.append(st.lineno)
                        return
                    if isinstance(st, (ast.Break, ast.Return, ast.Raise)):
                        return
                    if isinstance(st, ast.Assign) and isinstance(st.value, ast.Constant) and isinstance(st.value.value, bool) \
                            and all(isinstance(t, ast.Name) for t in st.targets) and st.value.value != initial.get(st.targets[0].id, not st.value.value):
                        return  # the candidate is marked (the flag leaves its initial value): eliminated on this path
                    if isinstance(st, ast.Continue):
                        if not confirmed:
                            bad.append(st.lineno)
                        return
                if nxt:
                    walk(nxt[0], confirmed, nxt[1:])
                elif not confirmed:
                    bad.append(stmts[-1].lineno if stmts else loop.lineno)
            walk(loop.body, False, [])
            rep.add(rid, f"names:{f_.name}:every path through the name loop compares the name or eliminates the candidate", not bad,
                    f"a path through the loop body (ending at line {sorted(set(bad))}) neither establishes `{sorted(keys)[0].replace('|', ' == ')}` nor "
                    f"eliminates the candidate: a member whose parameter carries no name is accepted for any requested name and its text is "
                    f"attached to another overload's binding", f"{ci.mod.rel}:{loop.lineno}")
    rep.add(rid, "names:name loops analysed", True, f"{found}", "", nontrivial=False)


def rule_extracted_elements_used(ctx, rep: Report, rid="Q7"):
    """Everything the formatter looks up in a member definition ends up in the text: each local bound to a
    `.find(...)` / `.findall(...)` result (or to the result of a formatting helper) in get_formatted_docstring and the
    helpers it calls reaches, through data or control dependence, the value the function returns.  (A brief
    description, a parameter list or a return section that is looked up and then dropped is documentation silently
    lost.)"""
    prog = ctx.prog
    ci = prog.cls("XMLDocParser")
    top = prog.method("XMLDocParser", "get_formatted_docstring")
    fns, work = [], [top]
    while work:
        f_ = work.pop()
        if f_ in fns:
            continue
        fns.append(f_)
        for c in ast.walk(f_):
            if isinstance(c, ast.Call) and isinstance(c.func, ast.Attribute) and unparse(c.func.value) == "self":
                h = prog.find_method(ci, c.func.attr)
                if h is not None and h[1].name != "print_if_verbose":
                    work.append(h[1])
    helper_names = {f_.name for f_ in fns}

    def names(e):
        return {x.id for x in ast.walk(e) if isinstance(x, ast.Name) and isinstance(x.ctx, ast.Load)}
    total = 0
    for fn in fns:
        rets = [r.value for r in walk_no_nested(fn) if isinstance(r, ast.Return) and r.value is not None]
        outs = {x.id for r in rets for x in ast.walk(r) if isinstance(x, ast.Name)}
        deps: Dict[str, Set[str]] = {}
        for st in walk_no_nested(fn):
            tg = None
            if isinstance(st, ast.AugAssign) and isinstance(st.target, ast.Name):
                tg, val = [st.target.id], st.value
            elif isinstance(st, ast.Assign):
                tg, val = [x.id for t in st.targets for x in ast.walk(t) if isinstance(x, ast.Name)], st.value
            elif isinstance(st, ast.For):
                tg, val = [x.id for x in ast.walk(st.target) if isinstance(x, ast.Name)], st.iter
            elif isinstance(st, ast.Expr) and isinstance(st.value, ast.Call) and isinstance(st.value.func, ast.Attribute) \
                    and isinstance(st.value.func.value, ast.Name) and st.value.func.attr in ("append", "extend", "insert", "update", "add"):
                tg, val = [st.value.func.value.id], st.value
            elif isinstance(st, ast.Return) and st.value is not None:
                tg, val = ["<return>"], st.value
            if not tg:
                continue
            d = set(names(val))
            p_ = parent(st)
            while p_ is not None and p_ is not fn:
                if isinstance(p_, (ast.If, ast.While)):
                    d |= names(p_.test)
                elif isinstance(p_, ast.For):
                    d |= names(p_.iter) | {x.id for x in ast.walk(p_.target) if isinstance(x, ast.Name)}
                p_ = parent(p_)
            for t in tg:
                deps.setdefault(t, set()).update(d)
        reach = {"<return>"}
        wl = ["<return>"]
        while wl:
            v = wl.pop()
            for d in deps.get(v, ()):
                if d not in reach:
                    reach.add(d)
                    wl.append(d)
        for st in walk_no_nested(fn):
            if isinstance(st, ast.Assign) and len(st.targets) == 1 and isinstance(st.targets[0], ast.Name):
                calls = [c for c in ast.walk(st.value) if isinstance(c, ast.Call) and isinstance(c.func, ast.Attribute) and c.args
                         and ((c.func.attr in ("find", "findall") and isinstance(c.args[0], ast.Constant))
                              or (unparse(c.func.value) == "self" and c.func.attr in helper_names))]
                if not calls:
                    continue
                c = calls[0]
                what = c.args[0].value if isinstance(c.args[0], ast.Constant) else f"self.{c.func.attr}(...)"
                var = st.targets[0].id
                total += 1
                rep.add(rid, f"formatter:{fn.name}:the element found by `{what}` reaches the returned text", var in reach,
                        f"`{var}` (line {st.lineno}) is looked up but nothing {fn.name} returns depends on it: that part of the "
                        f"member's documentation never appears in the binding", f"{ci.mod.rel}:{st.lineno}", nontrivial=False)
    if total < 4:
        raise AnalysisError(f"{rep.prop}/{rid}: only {total} element look-ups found in get_formatted_docstring and its helpers")


def rule_counter_key_identity(ctx, rep: Report, rid="Q8"):
    """The overload counter is keyed by (class, method, argument names) *as requested by the binding*: every value
    that enters the key in determine_documenting_index is, at each call of that method, the caller's own unmodified
    parameter, all the way up to extract_docstring's parameters.  A key component that was normalised on the way
    (template arguments stripped, case folded ...) makes everything the normalisation maps together share one
    counter: the bindings of a second instantiation of a class template continue where the first one stopped and get
    another overload's text or none."""
    prog = ctx.prog
    ci = prog.cls("XMLDocParser")
    det = prog.method("XMLDocParser", "determine_documenting_index")
    dps = func_params(det)
    key_stores = [st for st in walk_no_nested(det) if isinstance(st, (ast.Assign, ast.AugAssign)) and any(
        isinstance(t, ast.Subscript) and unparse(t.value) == "self._memory" for t in (st.targets if isinstance(st, ast.Assign) else [st.target]))]
    comps: Set[str] = set()
    for st in key_stores:
        for t in (st.targets if isinstance(st, ast.Assign) else [st.target]):
            if isinstance(t, ast.Subscript):
                k = inline_locals(det, t.slice)
                comps |= {x.id for x in ast.walk(k) if isinstance(x, ast.Name) and x.id in dps}
    if len(comps) < 3:
        raise AnalysisError(f"{rep.prop}/{rid}: the counter key is built from {sorted(comps)} only (class, method and argument names expected)")
    n = 0

    def rebound(fn, name) -> List[int]:
        return [x.lineno for x in ast.walk(fn) if isinstance(x, ast.Name) and x.id == name and isinstance(x.ctx, ast.Store)]
    # direct re-binding inside the method itself
    for cname in sorted(comps):
        rb = rebound(det, cname)
        n += 1
        rep.add(rid, f"counter key:determine_documenting_index:`{cname}` enters the key as received", not rb,
                f"re-bound at line(s) {rb} before the key is built", f"{ci.mod.rel}:{det.lineno}")
    work = [(det, sorted(comps))]
    seen = set()
    while work:
        callee, names = work.pop()
        for mname, fn in sorted(ci.methods.items()):
            for c in walk_no_nested(fn):
                if isinstance(c, ast.Call) and isinstance(c.func, ast.Attribute) and unparse(c.func.value) == "self" and c.func.attr == callee.name:
                    try:
                        b = bind_call(callee, c, drop_self=True)
                    except AnalysisError:
                        continue
                    up = []
                    for nm in names:
                        av = b.get(nm)
                        if av is None:
                            continue
                        n += 1
                        fps = func_params(fn)
                        ok = isinstance(av, ast.Name) and av.id in fps and not rebound(fn, av.id)
                        rep.add(rid, f"counter key:{mname}->{callee.name}:`{nm}` is the caller's own parameter, unmodified", ok,
                                f"`{unparse(av)[:50]}` is passed for `{nm}`" + (f"; `{av.id}` is re-bound at line(s) {rebound(fn, av.id)} of {mname}"
                                                                               if isinstance(av, ast.Name) else "") +
                                ": the counter is then shared by every request that the modification maps to the same value (all instantiations "
                                "of a class template, say)", f"{ci.mod.rel}:{c.lineno}")
                        if ok:
                            up.append(av.id)
                    if up and (mname, tuple(up)) not in seen:
                        seen.add((mname, tuple(up)))
                        work.append((fn, up))
    if n < 6:
        raise AnalysisError(f"{rep.prop}/{rid}: only {n} key components traced")


def rule_empty_docstring_exactly_when_nothing_to_document(ctx, rep: Report, rid="Q4"):
    """extract_docstring answers '' before formatting exactly when there is no candidate or the overload index is past
    the candidates - never for a member that can be documented.  The early-return guard is read as a boolean function of
    two facts (the candidate list is non-empty; index < len(list)) and compared row by row with `empty or out of range`."""
    import itertools
    prog = ctx.prog
    ci = prog.cls("XMLDocParser")
    fn = prog.method("XMLDocParser", "extract_docstring")
    loc = f"{ci.mod.rel}:{fn.lineno}"
    subs = [s_ for s_ in walk_no_nested(fn) if isinstance(s_, ast.Subscript) and isinstance(s_.value, ast.Name) and not isinstance(s_.slice, (ast.Constant, ast.Slice))]
    if not subs:
        raise AnalysisError("extract_docstring: indexed candidate list not found")
    seq, idx = subs[0].value.id, unparse(subs[0].slice)
    guards = []
    for st in fn.body:
        if isinstance(st, ast.If) and not st.orelse and st.body and isinstance(st.body[-1], ast.Return) and isinstance(st.body[-1].value, ast.Constant) \
                and st.body[-1].value.value == "" and st.lineno < subs[0].lineno:
            names = {x.id for x in ast.walk(st.test) if isinstance(x, ast.Name)}
            if seq in names:
                guards.append(st.test)

    class U(Exception):
        pass

    def ev(e, env):
        if isinstance(e, ast.BoolOp):
            vs = [ev(v, env) for v in e.values]
            return any(vs) if isinstance(e.op, ast.Or) else all(vs)
        if isinstance(e, ast.UnaryOp) and isinstance(e.op, ast.Not):
            return not ev(e.operand, env)
        if isinstance(e, ast.Name) and e.id == seq:
            return env["nonempty"]
        if isinstance(e, ast.Compare) and len(e.ops) == 1:
            l, r, op = unparse(e.left).replace(" ", ""), unparse(e.comparators[0]).replace(" ", ""), e.ops[0]
            ln = f"len({seq})"
            if l == idx and r == ln:
                return {ast.Lt: env["inrange"], ast.GtE: not env["inrange"]}.get(type(op), None) if type(op) in (ast.Lt, ast.GtE) else _raise(U())
            if l == ln and r == idx:
                return {ast.Gt: env["inrange"], ast.LtE: not env["inrange"]}.get(type(op), None) if type(op) in (ast.Gt, ast.LtE) else _raise(U())
            if l == ln and r == "0":
                return {ast.Eq: not env["nonempty"], ast.NotEq: env["nonempty"], ast.Gt: env["nonempty"]}.get(type(op)) if type(op) in (ast.Eq, ast.NotEq, ast.Gt) else _raise(U())
        raise U()

    def _raise(x):
        raise x
    try:
        bad = []
        for ne, ir in itertools.product([False, True], repeat=2):
            if not ne and ir:
                continue            # an empty list has no index in range
            env = {"nonempty": ne, "inrange": ir}
            got = any(ev(g, env) for g in guards)
            want = (not ne) or (not ir)
            if got != want:
                bad.append(env)
        rep.add(rid, "extract_docstring:answers '' exactly when there is no candidate or the index is past the candidates", bool(guards) and not bad,
                f"guard(s) {[unparse(g) for g in guards]} decide differently for {bad}: a member that has documentation gets none, or the list is indexed "
                f"out of range", loc)
    except U:
        rep.add(rid, "extract_docstring:answers '' exactly when there is no candidate or the index is past the candidates", True,
                f"not decided: guard(s) {[unparse(g) for g in guards]} contain a test this rule does not interpret", loc, nontrivial=False)
    # what filter_member_defs hands back besides the candidates is filled, not just created
    ff = prog.method("XMLDocParser", "filter_member_defs")
    rets = [r.value for r in walk_no_nested(ff) if isinstance(r, ast.Return) and isinstance(r.value, ast.Tuple)]
    for r in rets[-1:]:
        for el in r.elts:
            if isinstance(el, ast.Name):
                inits = [st for st in ff.body if isinstance(st, ast.Assign) and unparse(st.targets[0]) == el.id and isinstance(st.value, ast.List) and not st.value.elts]
                if not inits:
                    continue
                filled = any(isinstance(c, ast.Call) and isinstance(c.func, ast.Attribute) and c.func.attr in ("append", "extend") and unparse(c.func.value) == el.id
                             for c in ast.walk(ff)) or any(isinstance(a, ast.AugAssign) and unparse(a.target) == el.id for a in ast.walk(ff))
                rep.add(rid, f"filter_member_defs:`{el.id}` handed back to the caller is filled in the loop", filled,
                        f"`{el.id}` is created empty and returned empty: what the caller was to learn (e.g. which optional parameters to leave out of "
                        f"the text) is lost", f"{ci.mod.rel}:{ff.lineno}")


def rule_docstring_literal_wellformed(ctx, rep: Report, rid="W11"):
    """The docstring is the one place where arbitrary input text becomes a C++ token: the literal has to be well-formed
    for every text (same obligations as C17 Q1's encoding part, under this property's id)."""
    prog = ctx.prog
    ci = prog.cls("PybindWrapper")
    holder, tpl, e, empty_ok, body, pmap, hcall = docstring_source(ctx)
    _literal_encoding(ctx, rep, rid, ci, holder, body)


def _member_filter_verdict(ctx):
    """(list of differences, None) when filter_member_defs can be run on the samples, (None, reason) otherwise; cached."""
    def mk():
        class _R:
            obs: list = []
            prop = "-"

            def add(self, rid, construct, ok, detail="", loc="", nontrivial=True):
                self.obs.append((construct, ok, detail))
        r = _R()
        r.obs = []
        rule_member_filter_by_evaluation(ctx, r, "Q11")
        c, ok, detail = r.obs[-1]
        if c.startswith("filter_member_defs evaluated"):
            return None, detail
        return ([] if ok else [detail]), None
    return ctx._get("member_filter_verdict", mk)


def rule_member_filter_by_evaluation(ctx, rep: Report, rid="Q11"):
    """filter_member_defs keeps a candidate exactly when the number of given names equals its required or its total number of
    parameters and every given name equals the candidate's parameter name at the same index - the text of <declname>, of
    <defname> only where <declname> is missing - and reports the <declname>s of the parameters beyond the given ones.  Decided
    by running the function (the analyser's own interpreter) on sample member definitions - sample elements are falsy when
    they have no children, as xml.etree's are - for five lists of given names."""
    from .rules_matlab import SampleObj, _PathEval, _Raised, mini_exec, sample_elem
    prog = ctx.prog
    ci = prog.cls("XMLDocParser")
    fn = prog.method("XMLDocParser", "filter_member_defs")
    ps = func_params(fn)
    loc = f"{ci.mod.rel}:{fn.lineno}"

    def param(decl=None, dfn=None, defval=None):
        kids = []
        kids.append(sample_elem("type", "double"))
        if decl is not None:
            kids.append(sample_elem("declname", decl))
        if dfn is not None:
            kids.append(sample_elem("defname", dfn))
        if defval is not None:
            kids.append(sample_elem("defval", defval))
        return sample_elem("param", None, *kids)

    def member(label, *params):
        m = sample_elem("memberdef", None, sample_elem("name", "f"), sample_elem("argsstring", "(...)"), *params)
        m["label"] = label
        return m
    members = [member("f(a, b)", param("a"), param("b")), member("f(a, b=1)", param("a"), param("b", defval="1")),
               member("f(<defname a>)", param(None, "a")), member("f(a <also defname x>)", param("a", "x")), member("f()"),
               member("f(<unnamed>)", param()), member("f(b, a)", param("b"), param("a")), member("f(a=0, b=0)", param("a", defval="0"), param("b", defval="0")),
               member("f(ab)", param("ab")), member("f(A)", param("A"))]        # names are compared whole and with their case

    def pname(p):
        d = p["find"]("declname")
        if d is not None:
            return d["text"]
        d = p["find"]("defname")
        return d["text"] if d is not None else None

    def spec(given):
        kept, ignored = [], []
        for m in members:
            prm = m["findall"]("param")
            tot = len(prm)
            req = tot - sum(1 for p in prm if p["find"]("defval") is not None)
            if len(given) not in (req, tot):
                continue
            if any(pname(prm[i]) is None or pname(prm[i]) != g for i, g in enumerate(given)):
                continue
            kept.append(m)
            for p in prm[len(given):]:
                d = p["find"]("declname")
                if d is not None:
                    ignored.append(d["text"])
        return kept, ignored
    me = SampleObj(_verbose=False, verbose=False, _memory={})
    diffs = []
    try:
        for given in ([], ["a"], ["a", "b"], ["b", "a"], ["x"], ["ab"], ["b"]):
            got = mini_exec(fn, {ps[0]: me, ps[1]: list(members), ps[2]: list(given)}, budget=20000, methods=dict(ci.methods))
            want = spec(given)
            if not (isinstance(got, (list, tuple)) and len(got) == 2):
                diffs.append(f"given {given}: the function does not return (kept definitions, ignored parameters)")
                continue
            gk = [m.get("label") for m in got[0]]
            wk = [m["label"] for m in want[0]]
            if gk != wk:
                diffs.append(f"given {given}: keeps {gk}, the definitions with these parameter names are {wk}")
            elif list(got[1]) != want[1]:
                diffs.append(f"given {given}: ignores {list(got[1])}, the optional parameters left out are {want[1]}")
    except (_PathEval.Unknown, _Raised, TypeError, KeyError, IndexError) as ex:
        rep.add(rid, "filter_member_defs evaluated on sample member definitions", True, f"not evaluable ({ex}); Q5 decides by structure", loc, nontrivial=False)
        return
    rep.add(rid, "filter_member_defs:keeps exactly the definitions whose parameter count and names fit the given names", not diffs,
            f"{diffs[:3]}: the binding then carries the documentation of another overload, or none although the member is documented", loc)


def cpp_narrow_literal_decode(lit: str) -> Optional[bytes]:
    """The bytes a C++ compiler (UTF-8 execution character set) stores for a narrow string literal written on one line, or None
    when the text is not one well-formed literal (a raw quote or line break inside, a dangling backslash, an escape C++ does
    not know, too few digits, a value that does not fit a char).  Octal and hex escapes denote single *bytes*; universal
    character names and raw characters denote code points, stored as UTF-8."""
    if len(lit) < 2 or lit[0] != '"' or lit[-1] != '"':
        return None
    s, out, i = lit[1:-1], bytearray(), 0
    simple = {"n": "\n", "t": "\t", "r": "\r", "\\": "\\", '"': '"', "'": "'", "a": "\a", "b": "\b", "f": "\f", "v": "\v", "?": "?"}
    while i < len(s):
        c = s[i]
        if c == '"' or c == "\n":
            return None
        if c != "\\":
            out += c.encode("utf-8", "surrogatepass")
            i += 1
            continue
        if i + 1 >= len(s):
            return None
        d = s[i + 1]
        if d in simple:
            out += simple[d].encode()
            i += 2
        elif d in "01234567":
            j = i + 1
            while j < len(s) and j < i + 4 and s[j] in "01234567":
                j += 1
            v = int(s[i + 1:j], 8)
            if v > 0xff:
                return None
            out.append(v)
            i = j
        elif d == "x":
            j = i + 2
            while j < len(s) and s[j] in "0123456789abcdefABCDEF":       # a hex escape takes every hex digit that follows
                j += 1
            if j == i + 2:
                return None
            v = int(s[i + 2:j], 16)
            if v > 0xff:
                return None                                              # out of range for a char: ill-formed
            out.append(v)
            i = j
        elif d in "uU":
            n_ = 4 if d == "u" else 8
            h = s[i + 2:i + 2 + n_]
            if len(h) != n_ or any(x not in "0123456789abcdefABCDEF" for x in h) or int(h, 16) > 0x10ffff or 0xd800 <= int(h, 16) <= 0xdfff:
                return None
            out += chr(int(h, 16)).encode("utf-8")
            i += 2 + n_
        else:
            return None
    return bytes(out)


def rule_docstring_literal_roundtrip(ctx, rep: Report, rid="Q12"):
    """The C++ string literal written for a documentation text is decoded by a compiler to exactly that text, whatever characters
    it contains.  Decided by running `_cpp_string_literal` (the analyser's own interpreter) on sample texts - quotes, backslashes,
    text that looks like an escape (`\\x41`, `\\u1234`), control characters followed by hex digits, characters outside ASCII
    and outside the Basic Multilingual Plane - and decoding the result with the escape rules of C++ narrow literals (a hex
    escape takes every hex digit that follows; `\\u` exactly four, `\\U` exactly eight)."""
    prog = ctx.prog
    ci = prog.cls("PybindWrapper")
    fn = prog.method("PybindWrapper", "_cpp_string_literal")
    loc = f"{ci.mod.rel}:{fn.lineno}"
    bad, err = _literal_roundtrip(ci, fn)
    if err is not None:
        rep.add(rid, "docstring literal evaluated on sample texts", True, f"not evaluable ({err}); Q1 decides by structure", loc, nontrivial=False)
        return
    rep.add(rid, "docstring literal:a C++ compiler reads back exactly the text, for every sample text", not bad,
            f"{bad[:2]}: the binding carries another documentation text than the one extracted (or the unit does not compile)", loc)


def _literal_roundtrip(ci, fn):
    """(texts that do not come back, None) for the encoder fn run on the sample texts, or (None, reason) when it cannot be run."""
    from .rules_matlab import SampleObj, _PathEval, _Raised, mini_exec
    ps = func_params(fn)
    static = any(isinstance(d, ast.Name) and d.id == "staticmethod" for d in fn.decorator_list)
    if len(ps) != (1 if static else 2):
        return None, "the encoder does not take exactly the text"
    samples = ["plain text.", 'say "hi"', "it's", "both ' and \"", "back\\slash", "\\x41 is text", "\\u1234 is text", "line1\nline2\ttab", "\x01a", "\x7f", "\x001", "tr\\", "\\\\",
               "café", "norm ‖x‖", "x = \U0001d465 squared", "\U0001d4655", "\U000e0001tag", "100% {done}", "a\\\nb", "é\x01f", "?" "?/",
               "next\x85line", "nbsp\xa0here", "soft\xadhyphen1", "back\\'quote", "\\\"", "\x9f"]
    bad, err = [], None
    for t in samples:
        env = {ps[0]: t} if static else {ps[0]: SampleObj(), ps[1]: t}
        try:
            lit = mini_exec(fn, env, budget=4000, methods=dict(ci.methods))
        except _Raised as ex:
            bad.append(f"{t!r}: the encoder raises ({ex})")
            continue
        except (_PathEval.Unknown, TypeError) as ex:
            err = str(ex)
            break
        if not isinstance(lit, str):
            err = "no text returned"
            break
        back = cpp_narrow_literal_decode(lit)
        if back != t.encode("utf-8", "surrogatepass"):
            bad.append(f"{t!r} is written as {lit[:40]!r}, which C++ reads as {back.decode('utf-8', 'replace')!r}" if back is not None
                       else f"{t!r} is written as {lit[:40]!r}: not one well-formed literal")
    if err is not None:
        return None, err
    return bad, None
