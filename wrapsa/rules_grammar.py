"""Grammar-level rules shared by C01 / C07 / C12 / C19 (Engine G)."""
from __future__ import annotations

import ast
import re
from typing import Dict, List, Optional, Set, Tuple

from .core import AnalysisError, Report
from .grammar import (GNode, Grammar, cycles_with_or, first_terms, left_recursive_forwards,
                      nullable, PKG)
from .prog import dotted, enclosing, parent, unparse

PARSE_METHODS = {"parseString", "parse_string", "parseFile", "parse_file", "searchString",
                 "search_string", "scanString", "scan_string", "transformString"}
REPETITIONS = {"ZeroOrMore", "OneOrMore", "DelimitedList"}
VERBATIM_KINDS = {"OriginalTextFor", "CharsNotIn", "QuotedString", "NestedExpr"}


def gloc(n: GNode) -> str:
    return f"{n.src[0]}:{n.src[1]}"


def parse_root(ctx) -> Tuple[GNode, ast.Call]:
    """The grammar node on which Module.parseString calls parseString, and that call."""
    prog, g = ctx.prog, ctx.grammar
    fn = prog.method("Module", "parseString")
    calls = [c for c in ast.walk(fn) if isinstance(c, ast.Call) and isinstance(c.func, ast.Attribute)
             and c.func.attr in PARSE_METHODS]
    if not calls or len({unparse(c.func.value) for c in calls}) != 1:
        raise AnalysisError(f"Module.parseString: expected parse call(s) on one receiver, found "
                            f"{[unparse(c.func.value) for c in calls]}")
    call = sorted(calls, key=lambda c: c.lineno)[0]
    recv = dotted(call.func.value)
    if recv is None or "." not in recv:
        raise AnalysisError(f"Module.parseString: cannot resolve receiver {unparse(call.func.value)}")
    cls, attr = recv.rsplit(".", 1)
    return g.class_rule(cls, attr), call


def ends_with_string_end(n: GNode, _seen=None) -> bool:
    _seen = _seen or set()
    if n.uid in _seen:
        return False
    _seen = _seen | {n.uid}
    if n.kind == "StringEnd":
        return True
    if n.kind == "And" and n.children:
        return ends_with_string_end(n.children[-1], _seen)
    if n.kind in ("Or", "MatchFirst") and n.children:
        return all(ends_with_string_end(c, _seen) for c in n.children)
    if n.kind in ("Forward", "Group") and n.children:
        return ends_with_string_end(n.children[0], _seen)
    return False


def const_kw(call: ast.Call, names) -> Optional[object]:
    for k in call.keywords:
        if k.arg in names and isinstance(k.value, ast.Constant):
            return k.value.value
    return None


# ------------------------------------------------------------------------------------------
def rule_end_anchor(ctx, rep: Report, rid="V1"):
    root, call = parse_root(ctx)
    mi = ctx.prog.cls("Module").mod
    parse_all = const_kw(call, ("parseAll", "parse_all")) is True or \
        (len(call.args) > 1 and isinstance(call.args[1], ast.Constant) and call.args[1].value is True)
    ok = ends_with_string_end(root) or parse_all
    rep.add(rid, "Module.parseString:root ends in StringEnd", ok,
            "every derivation of the root rule must end in StringEnd (or parseAll=True); otherwise "
            "a prefix of the input is accepted and the rest silently ignored",
            f"{mi.rel}:{call.lineno}")
    if call.func.attr not in ("parseString", "parse_string", "parseFile", "parse_file"):
        rep.add(rid, f"Module.parseString:uses {call.func.attr}", False,
                "scanning/searching entry points skip unparseable text instead of rejecting it",
                f"{mi.rel}:{call.lineno}")
    return root


def _ignore_ok(g, node) -> bool:
    final = {n.uid for n in g.reachable(node) if n.kind != "Comment"}
    for e in g.events:
        if e.kind == "ignore" and e.node.uid == node.uid and e.other.kind == "Comment" \
                and e.other.attrs.get("what") in ("cppStyleComment", "cpp_style_comment") \
                and not e.conditional and final <= e.reach:
            return True
    return False


def rule_single_entry(ctx, rep: Report, rid="V1", min_sites=3):
    """Every parse call in gtwrap/scripts goes through Module.parseString, or is made on a
    grammar element that is itself end-anchored and carries the comment skipper."""
    prog, g = ctx.prog, ctx.grammar
    n = 0
    for mi in prog.modules.values():
        for c in ast.walk(mi.tree):
            if not (isinstance(c, ast.Call) and isinstance(c.func, ast.Attribute)
                    and c.func.attr in PARSE_METHODS):
                continue
            n += 1
            recv = dotted(c.func.value) or unparse(c.func.value)
            fn = enclosing(c, (ast.FunctionDef, ast.AsyncFunctionDef))
            cls = enclosing(c, ast.ClassDef)
            where = f"{cls.name + '.' if cls else ''}{fn.name if fn else '<module>'}"
            key = f"parse-call:{where}:{recv}.{c.func.attr}"
            loc = f"{mi.rel}:{c.lineno}"
            inside_entry = cls is not None and cls.name == "Module" and fn is not None \
                and fn.name == "parseString"
            if inside_entry:
                rep.add(rid, key, True, "the entry point itself (anchoring and comment skipping of its "
                        "root are decided separately)", loc)
                continue
            rc = prog.resolve_class(c.func.value, mi)
            if rc is not None and rc.name == "Module" and c.func.attr in rc.methods:
                rep.add(rid, key, True, "goes through Module.parseString", loc)
                continue
            # a grammar element?  Class[.Nested].attr, optionally behind a module alias
            parts = recv.split(".")
            node = None
            for i in range(len(parts) - 1):
                try:
                    node = g.class_rule(".".join(parts[i:-1]), parts[-1])
                    break
                except AnalysisError:
                    continue
            if node is None:
                raise AnalysisError(f"{loc}: parse call on {recv!r} cannot be resolved to a grammar "
                                    f"element or to Module.parseString")
            parse_all = const_kw(c, ("parseAll", "parse_all")) is True
            anchored = ends_with_string_end(node) or parse_all
            skip = _ignore_ok(g, node)
            rep.add(rid, key, anchored and skip,
                    f"parse call on {node.label}: " +
                    ("" if anchored else "not end-anchored (a prefix of the input is accepted); ") +
                    ("" if skip else "no comment skipper installed on this element"), loc)
    rep.units["parse_call_sites"] = n
    have = sum(1 for o in rep.obs if o.rule == rid and o.construct.startswith("parse-call:"))
    if have < min_sites:
        raise AnalysisError(f"{rep.prop}/{rid}: only {have} parse call sites found, expected >= {min_sites}")


def rule_termination(ctx, rep: Report, rid="V3"):
    g = ctx.grammar
    root, _ = parse_root(ctx)
    nodes = g.reachable(root)
    lr = {f.uid for f in left_recursive_forwards(g, root)}
    nf = 0
    for n in nodes:
        if n.kind == "Forward" and not n.attrs.get("wraps_forward"):
            nf += 1
            rep.add(rid, f"forward:{n.label or n.describe()}:not left-recursive", n.uid not in lr,
                    "a Forward reachable from itself without consuming a token never terminates "
                    "(pyparsing recurses until the stack overflows)", gloc(n))
            rep.add(rid, f"forward:{n.label or n.describe()}:defined", bool(n.children),
                    "a Forward that is never assigned matches nothing", gloc(n))
    nr = 0
    for n in nodes:
        if n.kind in REPETITIONS and n.children:
            nr += 1
            rep.add(rid, f"repetition:{n.kind}@{ctx_label(g, n)}:body not nullable",
                    not nullable(n.children[0]),
                    "a repetition over an expression that can match the empty string loops forever",
                    gloc(n))
    rep.units["forwards"] = nf
    rep.units["repetitions"] = nr
    rep.units["grammar_nodes_reachable_from_root"] = len(nodes)


def ctx_label(g: Grammar, n: GNode) -> str:
    """Stable, line-free description of a node: nearest labelled ancestor + own description."""
    if n.label:
        return n.label
    # find a labelled node that reaches n directly
    best = None
    for m in g.nodes:
        if m.label and any(x.uid == n.uid for x in g.reachable(m)):
            size = len(g.reachable(m))
            if best is None or size < best[0]:
                best = (size, m.label)
    return f"{best[1] if best else '?'}>{n.describe()}" + \
        (":" + ",".join(sorted(c.describe() for c in n.children))[:80] if n.children else "")


# ------------------------------------------------------------------------------------------
def rule_comment_skipper(ctx, rep: Report, rid="L1"):
    g = ctx.grammar
    root, call = parse_root(ctx)
    evs = [e for e in g.events if e.kind == "ignore" and e.node.uid == root.uid]
    rep.add(rid, "root.ignore(comment) installed on the parse root", bool(evs),
            "no .ignore(...) is applied to the very object parseString is called on; comments "
            "between tokens are not skipped", gloc(root))
    if not evs:
        # was it applied to something else?
        for e in g.events:
            if e.kind == "ignore":
                rep.add(rid, f"ignore applied to {e.node.label or e.node.describe()} instead of the root",
                        False, "comment skipping installed on a sub-rule does not cover the rest of "
                        "the grammar", f"{e.mi.rel}:{e.at.lineno}")
        return
    final = {n.uid: n for n in g.reachable(root)}
    for e in evs:
        what = e.other.attrs.get("what") if e.other.kind == "Comment" else e.other.describe()

        def covers(n, depth=4) -> Set[str]:
            """Which comment forms the expression skips, judged by pyparsing's own comment expressions (an
            alternation of them is as good as the combined one)."""
            if n.kind == "Comment":
                w = n.attrs.get("what")
                if w in ("cppStyleComment", "cpp_style_comment", "javaStyleComment", "java_style_comment"):
                    return {"block", "line"}
                if w in ("cStyleComment", "c_style_comment"):
                    return {"block"}
                if w in ("dblSlashComment", "dbl_slash_comment"):
                    return {"line"}
                return set()
            if n.kind in ("Or", "MatchFirst") and depth > 0:
                out: Set[str] = set()
                for c in n.children:
                    out |= covers(c, depth - 1)
                return out
            return set()
        rep.add(rid, "root.ignore:skips C and C++ comments", covers(e.other) == {"block", "line"},
                f"ignore expression is {what}; pyparsing's cppStyleComment (or cStyleComment together with dblSlashComment) covers both "
                f"/*..*/ and //..; a hand-written pattern is not analysed and not accepted", f"{e.mi.rel}:{e.at.lineno}")
        rep.add(rid, "root.ignore:unconditional", not e.conditional,
                "the comment skipper is installed under a condition", f"{e.mi.rel}:{e.at.lineno}")
        missing = [n for uid, n in final.items() if uid not in e.reach and n.kind != "Comment"]
        # nodes created later (e.g. a Forward defined after the ignore call) are not covered
        rep.add(rid, "root.ignore:covers every sub-expression of the final grammar", not missing,
                "ignore() propagates only to sub-expressions present when it is called; not "
                "covered: " + ", ".join(sorted({ctx_label(g, n) for n in missing})[:6]),
                f"{e.mi.rel}:{e.at.lineno}")
    # pyparsing hands an ignore expression down only through elements that do not hold an equal one yet: an
    # element that was given the skipper on its own (before its body existed, or before the root's call) stops the
    # descent, and whatever is reachable only through it never learns to skip comments
    for e in g.events:
        if e.kind == "ignore" and e.node.uid != root.uid:
            own_final = {n.uid: n for n in g.reachable(e.node)}
            late = [n for uid, n in own_final.items() if uid not in e.reach and n.kind != "Comment"]
            rep.add(rid, f"ignore applied to {e.node.label or ctx_label(g, e.node)} as well as to the root: it covered the element's whole final body",
                    not late,
                    "pyparsing's ignore() does not descend into an element that already holds an equal ignore expression: "
                    "this call makes the root's ignore() stop here, so the elements reachable only through this one (the `,` "
                    "of a template-argument list, a trailing `&`/`*`) do not skip comments", f"{e.mi.rel}:{e.at.lineno}")
    # a *second*, different root object used for parsing would bypass the skipper: covered by V1/L3.


IDCH = set("abcdefghijklmnopqrstuvwxyzABCDEFGHIJKLMNOPQRSTUVWXYZ0123456789_")

# single tokens of the dialect although they are two C++ tokens / carry punctuation
L2_EXEMPT = {
    ("Keyword", "#include"): "the directive is one token of the dialect (DOCS.md: `#include <header>`)",
    ("Literal", "()"): "operator spelling `operator()` is one token in the dialect's operator table",
    ("Literal", "[]"): "operator spelling `operator[]` is one token in the dialect's operator table",
}


def verbatim_zone_nodes(ctx) -> Set[int]:
    g = ctx.grammar
    zone: Set[int] = set()
    d = g.module_value("tokens", "DEFAULT_ARG")
    if isinstance(d, GNode):
        zone |= {n.uid for n in g.reachable(d)}
    inc = g.class_rule("Include")
    # the header path: the variable terminal(s) of Include.rule
    for n in g.reachable(inc):
        if n.kind in VERBATIM_KINDS:
            zone.add(n.uid)
    return zone


def rule_layout_transparent(ctx, rep: Report, rid="L2"):
    g = ctx.grammar
    root, _ = parse_root(ctx)
    zone = verbatim_zone_nodes(ctx)
    # nodes below an OriginalTextFor are verbatim by construction
    seen = set()
    nlit = 0
    for n in g.reachable(root):
        if n.uid in zone:
            continue
        if n.kind in ("Literal", "Keyword"):
            key = (n.kind, n.text)
            if key in seen:
                continue
            seen.add(key)
            nlit += 1
            txt = n.text or ""
            has_ws = any(c.isspace() for c in txt)
            has_id = any(c in IDCH for c in txt)
            has_punct = any((c not in IDCH) and not c.isspace() for c in txt)
            bad = has_ws or (has_id and has_punct)
            if key in L2_EXEMPT:
                rep.add(rid, f"terminal:{n.kind}({txt!r})", True, "exempt: " + L2_EXEMPT[key], gloc(n),
                        nontrivial=False)
                continue
            why = ""
            if has_ws:
                why = ("the terminal text contains white space: it matches only that exact spacing, so "
                       "two spaces, a line break or a comment between the words changes the parse")
            elif bad:
                why = ("the terminal glues identifier characters and punctuation into one token; "
                       "elsewhere the same tokens may be separated by layout, so layout changes the parse")
            rep.add(rid, f"terminal:{n.kind}({txt!r})", not bad, why, gloc(n), nontrivial=bad)
        if n.kind in ("Word", "CharsNotIn"):
            # a run of characters that can contain a comment opener swallows it: `operator<< /* c */ (...)` is then read as the
            # token `<<` followed by `/*`, not as `<<` followed by a comment that is skipped
            a = n.attrs.get("args", [])
            strs = [x for x in a[:2] if isinstance(x, str) and x != "<expr>"]
            if n.kind == "Word" and strs:
                init = set(strs[0])
                body = set(strs[1]) if len(strs) > 1 else init
                excl = n.attrs.get("excludeChars")
                if isinstance(excl, str):
                    init -= set(excl)
                    body -= set(excl)
                opener = ("/" in init or "/" in body) and ("*" in body or "/" in body)
                nlit += 1
                rep.add(rid, f"terminal:Word({''.join(sorted(init))[:24]!r})@{ctx_label(g, n)}", not opener,
                        "the character run can contain `/*` or `//`: a comment written directly after (or inside) the token is consumed as part of it "
                        "instead of being skipped, so adding a comment changes the parse", gloc(n), nontrivial=opener)
            elif n.kind == "CharsNotIn" and strs:
                opener = "/" not in strs[0]
                nlit += 1
                rep.add(rid, f"terminal:CharsNotIn({strs[0][:24]!r})@{ctx_label(g, n)}", not opener,
                        "everything up to one of these characters is one token, a comment included: layout inside it becomes part of the result",
                        gloc(n), nontrivial=opener)
        if n.kind == "LayoutSensitive":
            rep.add(rid, f"combinator:{n.attrs.get('what')}@{ctx_label(g, n)}", False,
                    "layout-sensitive pyparsing construct in the grammar", gloc(n))
        for fl in n.layout_flags:
            rep.add(rid, f"combinator:{fl}@{ctx_label(g, n)}", False,
                    "layout-sensitive option on a grammar element", gloc(n))
    for e in g.events:
        if e.kind == "global_layout":
            rep.add(rid, f"global:{e.what}", False, "default white-space characters changed globally",
                    f"{e.mi.rel}:{e.at.lineno}")
    rep.units["distinct_terminals_outside_verbatim_zones"] = nlit
    if nlit < 30:
        raise AnalysisError(f"{rep.prop}/{rid}: only {nlit} terminals found (>=30 expected)")


def rule_verbatim_zones(ctx, rep: Report, rid="L4"):
    g = ctx.grammar
    root, _ = parse_root(ctx)
    zone = verbatim_zone_nodes(ctx)
    n_in = 0
    for n in g.reachable(root):
        if n.kind in VERBATIM_KINDS:
            inside = n.uid in zone
            n_in += 1 if inside else 0
            rep.add(rid, f"verbatim:{n.kind}@{ctx_label(g, n)}", inside,
                    "raw-text construct outside the two documented verbatim zones (default values, "
                    "#include path): layout inside it becomes part of the result", gloc(n),
                    nontrivial=not inside)
    if n_in < 2:
        raise AnalysisError(f"{rep.prop}/{rid}: verbatim zones not found ({n_in})")


# ------------------------------------------------------------------------------------------
def rule_packrat(ctx, rep: Report, rid="Z1"):
    g, prog = ctx.grammar, ctx.prog
    evs = [e for e in g.events if e.kind == "parser_element_call"
           and e.method in ("enablePackrat", "enable_packrat")]
    rep.add(rid, "enablePackrat:called at import of gtwrap.interface_parser", bool(evs),
            "memoisation is never enabled: the recursive Or-alternations re-parse every alternative "
            "at every nesting level (exponential in depth)", "gtwrap/interface_parser/__init__.py:0")
    for e in evs:
        where = f"{e.mi.rel}:{e.at.lineno}"
        rep.add(rid, "enablePackrat:unconditional module-level statement", not e.conditional,
                "memoisation is enabled only under a condition", where)
        lim = "default"
        bad = False
        if e.args:
            lim = e.args[0]
        for k in ("cache_size_limit",):
            if k in e.kw:
                lim = e.kw[k]
        if lim == "default" or lim is None:
            bad = False
        elif isinstance(lim, bool) or not isinstance(lim, int):
            raise AnalysisError(f"{where}: enablePackrat cache limit is not a constant")
        else:
            bad = lim < 128
        rep.add(rid, "enablePackrat:cache limit not below pyparsing's default", not bad,
                f"cache_size_limit={lim!r}: a (near-)empty memo table disables memoisation in effect",
                where)
        rep.add(rid, "enablePackrat:not forced off again", e.kw.get("force") is not False, "", where,
                nontrivial=False)
    bad_attrs = {"disable_memoization", "disableMemoization", "enable_left_recursion",
                 "enableLeftRecursion", "resetCache", "reset_cache"}
    bad_stores = {"_parse", "_parseNoCache", "_parseCache", "packrat_cache", "_packratEnabled",
                  "packrat_cache_lock", "packrat_cache_stats"}
    nfiles = 0
    for mi in prog.modules.values():
        nfiles += 1
        found = []
        for n in ast.walk(mi.tree):
            if isinstance(n, ast.Attribute) and n.attr in bad_attrs:
                found.append((n.attr, n.lineno))
            if isinstance(n, ast.Attribute) and isinstance(n.ctx, (ast.Store, ast.Del)) and n.attr in bad_stores:
                found.append((n.attr + "=", n.lineno))
            if isinstance(n, ast.Call) and isinstance(n.func, ast.Name) and n.func.id == "setattr" \
                    and len(n.args) >= 2 and isinstance(n.args[1], ast.Constant) \
                    and n.args[1].value in bad_stores | bad_attrs:
                found.append(("setattr " + str(n.args[1].value), n.lineno))
        rep.add(rid, f"no memoisation override in {mi.rel}", not found,
                "memoisation is switched off / replaced: " + ", ".join(f"{a}@{l}" for a, l in found),
                f"{mi.rel}:{found[0][1] if found else 0}", nontrivial=bool(found))
    rep.units["python_files_scanned"] = nfiles


def rule_recursion_evidence(ctx, rep: Report, rid="Z2"):
    g = ctx.grammar
    root, _ = parse_root(ctx)
    cyc = cycles_with_or(g, root)
    for f, ors in cyc:
        rep.add(rid, f"cycle:{f.label or f.describe()}", True,
                f"recursive rule with {len(ors)} alternation(s) on the cycle: memoisation (Z1) is what "
                f"keeps re-parsing of alternatives bounded", gloc(f))
    rep.units["recursive_cycles_with_alternations"] = len(cyc)


def rule_recursion_fanout(ctx, rep: Report, rid="Z4"):
    """On every recursive cycle at most one alternative of any alternation can re-enter the cycle for
    the same input prefix - unless the memo table is unbounded.  With pyparsing's default 128-entry
    FIFO memo a second overlapping alternative re-parses the nested level once its entry has been
    evicted, i.e. the work multiplies per nesting level."""
    g = ctx.grammar
    root, _ = parse_root(ctx)
    unbounded = False
    for e in g.events:
        if e.kind == "parser_element_call" and e.method in ("enablePackrat", "enable_packrat"):
            lim = e.args[0] if e.args else e.kw.get("cache_size_limit", "default")
            unbounded = lim is None
    n = 0
    for f in g.reachable(root):
        if f.kind != "Forward" or not f.children or f.attrs.get("wraps_forward"):
            continue
        body = g.reachable(f.children[0])
        if not any(x.uid == f.uid for x in body):
            continue            # not recursive

        def reaches_f(node, _seen=None):
            _seen = _seen or set()
            if node.uid == f.uid:
                return True
            if node.uid in _seen:
                return False
            _seen.add(node.uid)
            return any(reaches_f(c, _seen) for c in node.children)

        for o in body:
            if o.kind not in ("Or", "MatchFirst") or o.uid == f.uid:
                continue
            alts = [a for a in o.children if reaches_f(a)]
            if not alts:
                continue
            n += 1
            clash = []
            for i in range(len(alts)):
                for j in range(i + 1, len(alts)):
                    fa, fb = first_terms(alts[i]), first_terms(alts[j])
                    common = {t for t in fa if t in fb}
                    common |= {("Word", "*") for (k, _t) in fa if k == "Word" for (k2, _t2) in fb if k2 == "Word"}
                    if common:
                        clash.append((alts[i].describe(), alts[j].describe()))
            ok = not clash or unbounded
            rep.add(rid, f"cycle:{f.label or f.describe()}:alternation {ctx_label(g, o)}:one re-entering alternative per prefix", ok,
                    f"{len(alts)} alternatives of this alternation re-enter the recursive rule and can start on the same "
                    f"token(s) ({clash[:2]}): each nesting level is then parsed once per alternative whenever its memo "
                    f"entry has been evicted (default memo: 128-entry FIFO), i.e. cost grows exponentially with depth"
                    if not ok else f"{len(alts)} re-entering alternative(s)", gloc(o))
    rep.units["alternations_on_recursive_cycles"] = n
    if n < 2:
        raise AnalysisError(f"{rep.prop}/{rid}: {n} alternations on recursive cycles, 2 expected (Namespace, TemplatedType)")


def rule_free_text_bounded(ctx, rep: Report, rid="V7"):
    """Every token class that matches free text (anything that may contain the dialect's own brackets and
    terminators without looking at them) is bounded by the end of its line or by bracket balance.  An
    unbounded one turns the deletion of its closing delimiter into an *accepted* file: the token runs on to
    the next occurrence of that delimiter and the declarations in between vanish into it."""
    g = ctx.grammar
    root, _ = parse_root(ctx)
    structural = set("{}();<>,")
    n = 0
    for node in sorted(g.reachable(root), key=lambda x: (x.src, x.uid)):
        loc = f"{node.src[0]}:{node.src[1]}"
        args = node.attrs.get("args", [])
        if node.kind == "CharsNotIn":
            n += 1
            excl = args[0] if args and isinstance(args[0], str) and args[0] != "<expr>" else None
            if excl is None:
                raise AnalysisError(f"{loc}: CharsNotIn with a non-constant character set")
            bounded = "\n" in excl or node.attrs.get("max") not in (None, 0) or node.attrs.get("exact") not in (None, 0)
            rep.add(rid, f"free-text:{ctx_label(g, node)}:CharsNotIn({excl!r}) ends with its line at the latest", bounded,
                    f"CharsNotIn({excl!r}) matches line breaks and every bracket/terminator except {sorted(excl)}: with the closing "
                    f"delimiter deleted it runs on to the next {sorted(excl)} anywhere later in the file, the run is accepted and "
                    f"every declaration in between is dropped (e.g. `#include <a.h` NEWLINE `class X {{...}};` NEWLINE `#include <b.h>` "
                    f"parses as one include)", loc)
        elif node.kind == "QuotedString":
            n += 1
            ml = node.attrs.get("multiline", False)
            rep.add(rid, f"free-text:{ctx_label(g, node)}:QuotedString({(args or ['?'])[0]!r}) is single-line", ml in (False, None),
                    "a multi-line quoted string runs over declarations up to the next quote when its closing quote is deleted", loc)
        elif node.kind == "Word":
            n += 1
            sets = [a for a in args[:2] if isinstance(a, str) and a != "<expr>"]
            if len(sets) != len(args[:2]):
                raise AnalysisError(f"{loc}: Word with a non-constant character set")
            excl = node.attrs.get("excludeChars") or ""
            chars = set("".join(sets)) - set(excl if isinstance(excl, str) else "")
            ws = {c for c in chars if c.isspace()}
            rep.add(rid, f"free-text:{ctx_label(g, node)}:Word matches no white space and none of the dialect's brackets/terminators",
                    not ws and not (chars & structural),
                    f"Word accepts {sorted(ws | (chars & structural))}: it can absorb structural characters of the following text", loc,
                    nontrivial=bool(chars - set("abcdefghijklmnopqrstuvwxyzABCDEFGHIJKLMNOPQRSTUVWXYZ0123456789_")))
        elif node.kind == "NestedExpr":
            n += 1
            rep.add(rid, f"free-text:{ctx_label(g, node)}:nested {node.attrs.get('opener')}..{node.attrs.get('closer')} is bounded by bracket balance",
                    isinstance(node.attrs.get("opener"), str) and isinstance(node.attrs.get("closer"), str)
                    and node.attrs.get("opener") != node.attrs.get("closer"),
                    "opener and closer must be distinct constant delimiters", loc, nontrivial=False)
        elif node.kind in ("Regex", "SkipTo", "Opaque") or (node.kind == "LayoutSensitive" and node.attrs.get("what") in ("restOfLine", "SkipTo", "Regex", "rest_of_line")):
            n += 1
            rep.add(rid, f"free-text:{ctx_label(g, node)}:{node.attrs.get('what', node.kind)} is not used for declaration text", False,
                    "an unstructured scan (SkipTo / Regex / restOfLine) over declaration text accepts whatever it skips", loc)
    if n < 8:
        raise AnalysisError(f"{rep.prop}/{rid}: only {n} free-text token classes found in the grammar (8 expected)")


# ------------------------------------------------------------------------------------------
# word boundary of word-like literals
_IDENT = set("abcdefghijklmnopqrstuvwxyzABCDEFGHIJKLMNOPQRSTUVWXYZ0123456789_")


def _first_nodes(n: GNode, _seen=None) -> List[GNode]:
    """Terminal nodes that can start a match of n."""
    from .grammar import nullable
    _seen = _seen if _seen is not None else set()
    if n.uid in _seen:
        return []
    _seen = _seen | {n.uid}
    if not n.children or n.kind in ("Literal", "Keyword", "Word", "CharsNotIn", "QuotedString", "NestedExpr", "Comment", "StringEnd"):
        return [n]
    if n.kind == "And":
        out = []
        for c in n.children:
            out += _first_nodes(c, _seen)
            if not nullable(c):
                break
        return out
    out = []
    for c in n.children:
        out += _first_nodes(c, _seen)
    return out


def _follow_nodes(g: Grammar, root: GNode, target: GNode) -> List[GNode]:
    """Terminal nodes that can directly follow a match of `target` somewhere in the grammar under root."""
    from .grammar import nullable
    nodes = g.reachable(root)
    parents: Dict[int, List[Tuple[GNode, int]]] = {}
    for p in nodes:
        for i, c in enumerate(p.children):
            parents.setdefault(c.uid, []).append((p, i))
        d = p.attrs.get("delim_node")
        if isinstance(d, GNode):
            parents.setdefault(d.uid, []).append((p, -1))
    out: List[GNode] = []
    seen = set()

    def follow(x: GNode):
        if x.uid in seen:
            return
        seen.add(x.uid)
        for p, i in parents.get(x.uid, []):
            k = p.kind
            if k == "And":
                rest = p.children[i + 1:]
                done = False
                for c in rest:
                    out.extend(_first_nodes(c))
                    if not nullable(c):
                        done = True
                        break
                if not done:
                    follow(p)
            elif k in ("ZeroOrMore", "OneOrMore"):
                out.extend(_first_nodes(x))
                follow(p)
            elif k == "DelimitedList":
                d = p.attrs.get("delim_node")
                if i == -1:
                    out.extend(_first_nodes(p.children[0]))
                else:
                    if isinstance(d, GNode):
                        out.extend(_first_nodes(d))
                    follow(p)
            else:
                follow(p)
    follow(target)
    return out


def _can_start_with_ident_char(t: GNode) -> bool:
    if t.kind in ("Literal", "Keyword"):
        return bool(t.text) and t.text[0] in _IDENT
    if t.kind == "Word":
        a = t.attrs.get("args", [])
        init = a[0] if a and isinstance(a[0], str) and a[0] != "<expr>" else None
        if init is None:
            return True
        excl = t.attrs.get("excludeChars") or ""
        return bool((set(init) - set(excl if isinstance(excl, str) else "")) & _IDENT)
    if t.kind == "CharsNotIn":
        a = t.attrs.get("args", [])
        return not (a and isinstance(a[0], str) and _IDENT <= set(a[0]))
    return False


def rule_word_boundary(ctx, rep: Report, rid="G9"):
    """A terminal spelt like a word (`class`, `struct`, `std` ...) either is a Keyword (pyparsing then refuses
    to match it inside a longer identifier) or can only be followed by punctuation.  A plain Literal / oneOf
    alternative in front of an identifier position eats the identifier's first letters: `enum classification`
    is accepted and yields an enum named `ification`."""
    g = ctx.grammar
    root, _ = parse_root(ctx)
    n = 0
    done = set()
    for node in sorted(g.reachable(root), key=lambda x: (x.src, x.uid)):
        if node.kind not in ("Literal", "Keyword") or not node.text or node.text[-1] not in _IDENT or not any(c.isalnum() for c in node.text):
            continue
        key = (node.kind, node.text, node.src)
        n += 1
        if node.kind == "Keyword":
            if key not in done:
                rep.add(rid, f"word-boundary:{node.text!r}@{ctx_label(g, node)}:Keyword", True, "Keyword: not matched inside a longer identifier",
                        f"{node.src[0]}:{node.src[1]}", nontrivial=False)
            done.add(key)
            continue
        fol = [t for t in _follow_nodes(g, root, node) if _can_start_with_ident_char(t)]
        rep.add(rid, f"word-boundary:{node.text!r}@{ctx_label(g, node)}:only punctuation can follow this plain literal", not fol,
                f"Literal({node.text!r}) has no word boundary and can be followed directly by "
                f"{sorted({t.describe() for t in fol})[:4]}: an identifier that merely starts with {node.text!r} is split, the "
                f"literal takes the prefix and the rest becomes the name (`enum classification {{...}}` -> enum `ification`)",
                f"{node.src[0]}:{node.src[1]}")
    if n < 15:
        raise AnalysisError(f"{rep.prop}/{rid}: only {n} word-like terminals found (15+ expected)")


def rule_recursive_alternative_last(ctx, rep: Report, rid="Z5"):
    """Under a *bounded* packrat cache (enablePackrat() keeps 128 entries, first-in first-out) the cost argument of
    Z1-Z4 needs one more premise: in a longest-match alternation (`^`) pyparsing first tries every alternative and
    then parses the winner again, and the second parse of a self-recursive winner is cheap only while the entries of
    its trial are still cached.  With the recursive alternative tried *last* nothing runs between its trial and its
    re-parse; with another alternative tried after it, that trial's entries (proportional to the length of a
    qualified name) push the nested entries out and every nesting level is parsed twice - cost doubles per level."""
    g = ctx.grammar
    root, _ = parse_root(ctx)
    n = 0
    for o in sorted(g.reachable(root), key=lambda x: (x.src, x.uid)):
        if o.kind != "Or" or len(o.children) < 2:
            continue
        rec = [i for i, a in enumerate(o.children) if any(x.uid == o.uid for x in g.reachable(a))]
        if not rec:
            continue
        n += 1
        nonrec = [i for i in range(len(o.children)) if i not in rec]
        ok = not nonrec or min(rec) > max(nonrec)
        rep.add(rid, f"alternation:{ctx_label(g, o)}:self-recursive alternative(s) tried after all others", ok,
                f"alternatives {[o.children[i].describe() for i in range(len(o.children))]}: recursive at position(s) {rec}, "
                f"non-recursive at {nonrec}: a non-recursive alternative is tried between the trial and the re-parse of the "
                f"recursive one, so with names of five or more `::` components the bounded memo table has lost the nested "
                f"entries and each nesting level is parsed twice (exponential in the nesting depth)", f"{o.src[0]}:{o.src[1]}")
    if n < 2:
        raise AnalysisError(f"{rep.prop}/{rid}: only {n} alternation(s) with a self-recursive alternative found (2 expected: "
                            f"template arguments, namespace content)")


def rule_quoted_literals_are_tokens(ctx, rep: Report, rid="G12"):
    """In a free-text expression (default values), a C++ string literal and a character literal are each one token, whatever
    they contain: for every quote character with which the catch-all word alternative can start (`"`, `'`), the same
    alternation offers a QuotedString of that quote (before the word, if the alternation takes the first match).
    Without it `char open = '('` is read up to the quote as a word and the bracket inside becomes structure: the
    rest of the declaration is swallowed into the default or the file is rejected."""
    g = ctx.grammar
    root, _ = parse_root(ctx)
    n = 0
    for node in sorted(g.reachable(root), key=lambda x: (x.src, x.uid)):
        if node.kind not in ("Or", "MatchFirst"):
            continue
        def flat(nd):
            out = []
            for c in nd.children:
                if c.kind == nd.kind and not c.label:
                    out += flat(c)            # `a ^ b ^ c` is built as Or(Or(a, b), c)
                else:
                    out.append(c)
            return out
        alts = flat(node)
        words = []
        for i, c in enumerate(alts):
            if c.kind == "Word":
                args = c.attrs.get("args", [])
                sets = [a for a in args[:1] if isinstance(a, str) and a != "<expr>"]
                excl = c.attrs.get("excludeChars") or ""
                if sets:
                    first = set(sets[0]) - set(excl if isinstance(excl, str) else "")
                    if first & set("\"'"):
                        words.append((i, c, first))
        if not words:
            continue
        quoted = {}
        for i, c in enumerate(alts):
            if c.kind == "QuotedString":
                q = (c.attrs.get("args") or [None])[0]
                if isinstance(q, str):
                    quoted.setdefault(q, i)
        for wi, w, first in words:
            for q in sorted(first & set("\"'")):
                n += 1
                has = q in quoted and (node.kind == "Or" or quoted[q] < wi)
                rep.add(rid, f"quoted literal:{ctx_label(g, node)}:a literal in {q} quotes is one token", has,
                        f"the word alternative can start with {q} but the alternation has no QuotedString({q!r})"
                        f"{' in front of it' if q in quoted else ''}: a literal such as {q}({q} or {q},{q} is cut at the delimiter inside the quotes and the "
                        f"following arguments are swallowed or the file is rejected", f"{w.src[0]}:{w.src[1]}")
    if n < 2:
        raise AnalysisError(f"{rep.prop}/{rid}: only {n} quote / word pairs found in the grammar (2 expected)")


def _faithful_holders(g, root, reach_uids: Set[int]) -> Set[int]:
    """Which elements hold the ignore expression after `root.ignore(x)`, following pyparsing's own propagation: an
    element that does not hold it yet stores it and hands it to its sub-expressions; an element that already holds
    an equal one stops the descent.  originalTextFor makes its wrapper and the wrapped expression share one list: the
    wrapped expression holds the comment skipper as soon as the wrapper does, and therefore never hands it down."""
    held: Set[int] = set()

    def prop(n):
        if n.uid in held or n.uid not in reach_uids:
            return
        held.add(n.uid)
        if n.kind == "OriginalTextFor":
            for c in n.children:
                held.add(c.uid)
            return
        for c in n.children:
            prop(c)
        d = n.attrs.get("delim_node")
        if isinstance(d, GNode):
            prop(d)
    prop(root)
    return held


def rule_comments_skipped_before_every_token(ctx, rep: Report, rid="L5"):
    """pyparsing skips comments only in front of elements that hold the ignore expression (and, for a repetition that
    holds it, in front of every iteration).  Every token of the grammar is therefore either a holder itself or stands
    at the very start of a holder (the first element of each sequence on the way, any alternative, the body of a holding
    repetition).  A token that can follow another token inside an element tree that never received the skipper reads a
    comment as text (`int n = 3 /* digits */` -> default `3 /* digits */`) - which elements receive it is computed with
    pyparsing's own propagation rules, including the list shared between originalTextFor's wrapper and its argument."""
    g = ctx.grammar
    root, _ = parse_root(ctx)
    evs = [e for e in g.events if e.kind == "ignore" and e.node.uid == root.uid]
    if not evs:
        raise AnalysisError("no ignore() on the parse root")
    held: Set[int] = set()
    for e in evs:
        held |= _faithful_holders(g, root, e.reach)
    tokens_bad: Dict[int, GNode] = {}
    seen: Set[Tuple[int, bool]] = set()
    n_tok = 0

    def visit(n, covered: bool):
        nonlocal n_tok
        if (n.uid, covered) in seen:
            return
        seen.add((n.uid, covered))
        holder = n.uid in held
        kids = list(n.children)
        d = n.attrs.get("delim_node")
        if not kids and n.kind not in ("Comment", "StringEnd", "Forward"):
            n_tok += 1
            if not (holder or covered):
                tokens_bad[n.uid] = n
            return
        if n.kind == "And":
            for i, c in enumerate(kids):
                # only the first element stands where this sequence starts; a later one is reached after another token
                visit(c, (True if holder else covered) if i == 0 else False)
        elif n.kind in ("ZeroOrMore", "OneOrMore"):
            for c in kids:
                visit(c, True if holder else False)
        elif n.kind == "DelimitedList":
            for c in kids:
                visit(c, holder or covered)
            if isinstance(d, GNode):
                visit(d, False)
        else:
            for c in kids:
                visit(c, holder or covered)
    visit(root, True)
    bad = sorted(tokens_bad.values(), key=lambda x: (x.src, x.uid))
    for t in bad[:12]:
        rep.add(rid, f"comment skipping:{ctx_label(g, t)}:comments in front of this token are skipped", False,
                f"the token neither holds the comment skipper nor stands at the start of an element that does: a comment between the preceding "
                f"token and this one is not skipped - it is taken for text or makes the file unparsable", f"{t.src[0]}:{t.src[1]}")
    rep.add(rid, "comment skipping:tokens examined", True, f"{n_tok} token positions, {len(held)} elements hold the skipper", "", nontrivial=False)
    if n_tok < 40:
        raise AnalysisError(f"{rep.prop}/{rid}: only {n_tok} token positions examined")
