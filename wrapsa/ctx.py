"""Per-run context: lazily built engines over one checkout."""
from __future__ import annotations

from .core import Tree


class Ctx:
    def __init__(self, root: str):
        self.tree = Tree(root)
        self._c = {}

    def _get(self, key, mk):
        if key not in self._c:
            self._c[key] = mk()
        return self._c[key]

    @property
    def prog(self):
        from .prog import Program
        return self._get("prog", lambda: Program(self.tree))

    @property
    def grammar(self):
        from .grammar import Grammar
        return self._get("grammar", lambda: Grammar(self.prog))

    @property
    def actions(self):
        from .actions import ActionAnalyzer
        return self._get("actions", lambda: ActionAnalyzer(self.prog, self.grammar))
