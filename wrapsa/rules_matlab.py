"""MATLAB generator rules: C15 (X1-X4), C10 (T1-T5), C06 (M1-M7), C11 (H1-H4), C16/Y1."""
from __future__ import annotations

import ast
import copy
from typing import Dict, List, Optional, Set, Tuple

from .core import AnalysisError, Report
from .emit import Folder, Slot, Tpl
from .prog import (ClassInfo, Program, bind_call, dotted, enclosing, func_params, guards_of, inline_locals,
                   local_assignments, parent, stmt_of, unparse, walk_no_nested)

MW = "gtwrap/matlab_wrapper/wrapper.py"


def mw(ctx) -> Tuple[ClassInfo, Program]:
    return ctx.prog.cls("MatlabWrapper"), ctx.prog


def canon_expr(fn, e: ast.AST, subject: Optional[str] = None) -> str:
    """Inline single-assignment locals and rename the subject variable to `_S`."""
    x = inline_locals(fn, e)
    if subject:
        for n in ast.walk(x):
            if isinstance(n, ast.Name) and n.id == subject:
                n.id = "_S"
    return unparse(x)


# ------------------------------------------------------------------------------------------
# C15
def _ignore_tests(cls_fn) -> List[ast.Compare]:
    return [c for c in ast.walk(cls_fn) if isinstance(c, ast.Compare) and len(c.ops) == 1 and isinstance(c.ops[0], (ast.In, ast.NotIn))
            and unparse(c.comparators[0]) == "self.ignore_classes"]


def rule_one_ignore_key(ctx, rep: Report, rid="X1"):
    prog = ctx.prog
    for cls, min_sites in (("PybindWrapper", 3), ("MatlabWrapper", 2)):
        ci = prog.cls(cls)
        forms: Dict[str, List[str]] = {}
        n = 0
        for c in prog.mro(ci):
            for mname, fn in c.methods.items():
                for t in _ignore_tests(fn):
                    n += 1
                    # subject: the variable the key is computed from
                    key = inline_locals(fn, t.left)
                    roots = [x.id for x in ast.walk(key) if isinstance(x, ast.Name) and x.id != "self"]
                    subj = roots[0] if roots else None
                    forms.setdefault(canon_expr(fn, t.left, subj), []).append(f"{mname}@{t.lineno}")
        ok = len(forms) == 1 and n >= min_sites
        rep.add(rid, f"{cls}:every ignore-list test uses the same key for a class", ok,
                f"{n} tests, key forms: " + " | ".join(f"{k}  [{', '.join(v)}]" for k, v in forms.items()) +
                (": the forms differ for some classes (e.g. a class at global scope), so one artefact of the class is "
                 "suppressed and another is not" if len(forms) > 1 else ""), f"{ci.mod.rel}:0")
        if n < min_sites:
            raise AnalysisError(f"{rep.prop}/{rid}: {n} ignore tests in {cls}, {min_sites} expected")


def rule_ignore_dominates_matlab(ctx, rep: Report, rid="X2"):
    ci, prog = mw(ctx)
    fn = prog.method("MatlabWrapper", "wrap_instantiated_class")
    tests = [i for i in fn.body if isinstance(i, ast.If) and _ignore_tests(i.test if isinstance(i.test, ast.AST) else i)]
    tests = [i for i in fn.body if isinstance(i, ast.If) and any(True for _ in _ignore_tests(i.test))]
    ok = len(tests) == 1 and isinstance(tests[0].body[0], ast.Return)
    first_effect = None
    for st in fn.body:
        txt = unparse(st)
        if "_update_wrapper_id" in txt or "self.content.append" in txt or "self.wrap_class_" in txt or "self.class_comment" in txt \
                or "self.wrap_methods" in txt or "self.wrap_static_methods" in txt or "self.wrap_enum" in txt:
            first_effect = st
            break
    rep.add(rid, "wrap_instantiated_class:ignore test returns before any id is allocated or text/file entry produced",
            ok and first_effect is not None and tests[0].lineno < first_effect.lineno,
            f"ignore test at line {tests[0].lineno if tests else None}, first effect at line "
            f"{first_effect.lineno if first_effect is not None else None}", f"{ci.mod.rel}:{fn.lineno}")
    gp = prog.method("MatlabWrapper", "generate_preamble")
    loops = [l for l in gp.body if isinstance(l, ast.For) and unparse(l.iter) == "self.classes"]
    if len(loops) != 1:
        raise AnalysisError("generate_preamble: loop over self.classes not found")
    body = loops[0].body
    itest = [i for i in body if isinstance(i, ast.If) and any(True for _ in _ignore_tests(i.test))]
    ok2 = len(itest) == 1 and isinstance(itest[0].body[-1], ast.Continue)
    emits = [st for st in body if isinstance(st, (ast.AugAssign,)) or (isinstance(st, ast.Expr) and ".append(" in unparse(st))
             or (isinstance(st, ast.If) and st not in itest)]
    rep.add(rid, "generate_preamble:ignored class skipped before collector, clean-up entry, RTTI entry and typedef",
            ok2 and all(itest[0].lineno < e.lineno for e in emits) and bool(emits),
            f"ignore test line {itest[0].lineno if itest else None}; emissions at {[e.lineno for e in emits]}",
            f"{ci.mod.rel}:{gp.lineno}")


def rule_none_result_handled(ctx, rep: Report, rid="X3"):
    ci, prog = mw(ctx)
    n = 0
    for c in prog.mro(ci):
        for mname, fn in c.methods.items():
            for call in walk_no_nested(fn):
                if not (isinstance(call, ast.Call) and unparse(call.func) == "self.wrap_instantiated_class"):
                    continue
                n += 1
                p = parent(call)
                if not (isinstance(p, ast.Assign) and len(p.targets) == 1 and isinstance(p.targets[0], ast.Name)):
                    rep.add(rid, f"caller:{mname}:result of wrap_instantiated_class bound to a local and tested", False,
                            "the result (None for an ignored class) is used directly", f"{c.mod.rel}:{call.lineno}")
                    continue
                var = p.targets[0].id
                blk_parent = parent(p)
                bad = []
                for u in walk_no_nested(fn):
                    if isinstance(u, ast.Name) and u.id == var and isinstance(u.ctx, ast.Load) and u.lineno > p.lineno:
                        q = parent(u)
                        if isinstance(q, ast.Subscript) and q.value is u or isinstance(q, ast.Attribute):
                            # dereference: must be under a None test of var, and belong to this assignment's region
                            same_region = enclosing(u, (ast.If,)) is not None and any(
                                var in g and ("None" in g) for g, pol in guards_of(u, fn, include_exits=False))
                            # only consider uses that this assignment reaches (same enclosing branch)
                            if _same_branch(p, u) and not same_region:
                                bad.append(u.lineno)
                rep.add(rid, f"caller:{mname}@{_branch_tag(p, fn)}:None result (ignored class) tested before use", not bad,
                        f"`{var}` is subscripted at line(s) {bad} without a None test: ignoring such a class raises "
                        f"TypeError('NoneType' object is not subscriptable)", f"{c.mod.rel}:{call.lineno}")
    if n < 2:
        raise AnalysisError(f"{rep.prop}/{rid}: {n} callers of wrap_instantiated_class, 2 expected")
    fn = prog.method("MatlabWrapper", "wrap_instantiated_class")
    rets = [unparse(r.value) if r.value is not None else "None" for r in walk_no_nested(fn) if isinstance(r, ast.Return)]
    rep.add(rid, "wrap_instantiated_class:returns None exactly for an ignored class", rets.count("None") == 1, f"returns {rets}",
            f"{ci.mod.rel}:{fn.lineno}", nontrivial=False)


def _same_branch(assign: ast.AST, use: ast.AST) -> bool:
    blk = parent(assign)
    n = use
    while n is not None:
        if n is blk:
            # same list?
            for fld in ("body", "orelse"):
                lst = getattr(blk, fld, None)
                if isinstance(lst, list) and assign in lst:
                    x = use
                    while parent(x) is not blk:
                        x = parent(x)
                    return x in lst
            return True
        n = parent(n)
    return False


def _branch_tag(node, fn) -> str:
    gs = guards_of(node, fn, include_exits=False)
    return ("if " if gs and gs[-1][1] else "else of ") + gs[-1][0][:30] if gs else "top"


# ------------------------------------------------------------------------------------------
# C16 / Y1
def rule_file_separator(ctx, rep: Report, rid="Y1"):
    ci, prog = mw(ctx)
    fn = prog.method("MatlabWrapper", "wrap")
    loops = [l for l in walk_no_nested(fn) if isinstance(l, ast.For) and unparse(l.iter) == func_params(fn)[1]]
    if len(loops) != 1:
        raise AnalysisError("MatlabWrapper.wrap: loop over the file list not found")
    accs = [a for a in ast.walk(loops[0]) if isinstance(a, ast.AugAssign) and isinstance(a.op, ast.Add)]
    joined = [c for c in walk_no_nested(fn) if isinstance(c, ast.Call) and isinstance(c.func, ast.Attribute) and c.func.attr == "join"
              and isinstance(c.func.value, ast.Constant)]
    ok = False
    detail = ""
    if accs:
        v = accs[0].value
        consts = [c.value for c in ast.walk(v) if isinstance(c, ast.Constant) and isinstance(c.value, str)]
        ok = any("\n" in c for c in consts)
        detail = f"accumulated as `{unparse(accs[0])}`"
    elif joined:
        ok = "\n" in joined[0].func.value.value
        detail = f"joined with {joined[0].func.value.value!r}"
    rep.add(rid, "MatlabWrapper.wrap:file contents are separated by a line break before parsing", ok,
            f"{detail}: the text of one file runs straight into the next, so a first file ending in a `//` comment "
            f"(or in the middle of a token) swallows / fuses with the next file's first declaration",
            f"{ci.mod.rel}:{loops[0].lineno}")
    parse = [c for c in walk_no_nested(fn) if isinstance(c, ast.Call) and unparse(c.func).endswith("Module.parseString")]
    rep.add(rid, "MatlabWrapper.wrap:the concatenation is parsed once", len(parse) == 1, f"{len(parse)} parse calls",
            f"{ci.mod.rel}:{fn.lineno}", nontrivial=False)


# ==========================================================================================
# C10
def rule_preamble_pairing(ctx, rep: Report, rid="T1"):
    ci, prog = mw(ctx)
    gp = prog.method("MatlabWrapper", "generate_preamble")
    loops = [l for l in gp.body if isinstance(l, ast.For) and unparse(l.iter) == "self.classes"]
    if len(loops) != 1:
        raise AnalysisError("generate_preamble: loop over self.classes not found")
    loop = loops[0]
    cvar = loop.target.id
    fo = Folder(prog, ci.mod, gp, ci)
    frag = {}
    for st in ast.walk(loop):
        if isinstance(st, ast.AugAssign) and isinstance(st.value, ast.Call) and isinstance(st.value.func, ast.Attribute) \
                and st.value.func.attr == "format":
            src = unparse(st.value.func.value)
            gs = [(t, pol) for t, pol in guards_of(st, gp, include_exits=False)]
            frag[src] = (st, gs, unparse(st.target))
    tc = frag.get("WrapperTemplate.typdef_collectors")
    do = frag.get("WrapperTemplate.delete_obj")
    rep.add(rid, "preamble:collector declaration and clean-up fragment emitted under identical conditions for every class",
            tc is not None and do is not None and tc[1] == do[1] == [],
            f"collector under {tc[1] if tc else None}, clean-up under {do[1] if do else None}: a collector without its "
            f"clean-up entry leaks at unload; a clean-up entry without collector does not compile", f"{ci.mod.rel}:{loop.lineno}")
    if tc and do:
        t1, t2 = fo.fold(tc[0].value), fo.fold(do[0].value)
        k1 = {s.key: unparse(s.expr) for s in t1.slots()} if t1 else {}
        k2 = {s.key: unparse(s.expr) for s in t2.slots()} if t2 else {}
        rep.add(rid, "preamble:both fragments are named after the same class", k1.get("class_name") is not None
                and k1.get("class_name") == k2.get("class_name"), f"{k1} vs {k2}", f"{ci.mod.rel}:{loop.lineno}")
    # RTTI
    rtti = [st for st in ast.walk(loop) if isinstance(st, ast.AugAssign) and "typeid" in unparse(st.value)]
    ok = len(rtti) == 1 and [t for t, pol in guards_of(rtti[0], gp, include_exits=False) if pol] == [f"{cvar}.is_virtual"]
    rep.add(rid, "preamble:RTTI registry entry iff the class is virtual", ok,
            f"guards {[guards_of(r, gp, include_exits=False) for r in rtti]}", f"{ci.mod.rel}:{loop.lineno}")
    # the accumulated fragments reach their templates
    txt = unparse(gp)
    rep.add(rid, "preamble:clean-up fragments are spliced into _deleteAllObjects, RTTI lines into the registry function",
            "WrapperTemplate.delete_all_objects.format(delete_objs=" in txt.replace(" ", "").replace("\n", "").replace("delete_objs=delete_objs", "delete_objs=")
            or "delete_all_objects.format(" in txt, "", f"{ci.mod.rel}:{gp.lineno}", nontrivial=False)
    # add_class for every instantiated class at every depth
    wn = prog.method("MatlabWrapper", "wrap_namespace")
    br = None
    for i in ast.walk(wn):
        if isinstance(i, ast.If) and isinstance(i.test, ast.Call) and unparse(i.test.func) == "isinstance" \
                and "InstantiatedClass" in unparse(i.test.args[1]):
            br = i
    ok = br is not None and isinstance(br.body[0], ast.Expr) and unparse(br.body[0].value.func) == "self.add_class" \
        and unparse(br.body[0].value.args[0]) == unparse(br.test.args[0])
    rep.add(rid, "every instantiated class is registered for the preamble before anything else happens to it", ok,
            "self.add_class(element) must be the first, unconditional statement of the class branch", f"{ci.mod.rel}:{wn.lineno}")
    rec = [c for c in walk_no_nested(wn) if isinstance(c, ast.Call) and unparse(c.func) == "self.wrap_namespace"]
    rep.add(rid, "nested namespaces are descended into", len(rec) == 1 and
            any(isinstance(i, ast.If) and "Namespace" in unparse(i.test) and any(rec[0] is c for c in ast.walk(i)) for i in ast.walk(wn)),
            "", f"{ci.mod.rel}:{wn.lineno}", nontrivial=False)
    ac = prog.method("MatlabWrapper", "add_class")
    rep.add(rid, "add_class:appends each class once", "self.classes.append" in unparse(ac) and "is None" in unparse(ac), "",
            f"{ci.mod.rel}:{ac.lineno}", nontrivial=False)


def rule_enum_numbering(ctx, rep: Report, rid="T2"):
    ci, prog = mw(ctx)
    fn = prog.method("MatlabWrapper", "wrap_enum")
    p = func_params(fn)[1]
    comps = [c for c in ast.walk(fn) if isinstance(c, (ast.ListComp, ast.GeneratorExp))]
    ok = False
    detail = ""
    for c in comps:
        g = c.generators[0]
        it = unparse(g.iter).replace(" ", "")
        if it.startswith("enumerate(") and isinstance(g.target, ast.Tuple):
            iv, ev = [t.id for t in g.target.elts]
            elt = c.elt
            if isinstance(elt, ast.JoinedStr):
                fv = [unparse(v.value) for v in elt.values if isinstance(v, ast.FormattedValue)]
                lit = "".join(v.value if isinstance(v, ast.Constant) else "@" for v in elt.values)
                ok = it == f"enumerate({p}.enumerators)" and fv == [f"{ev}.name", iv] and lit == "@(@)" and not g.ifs
                detail = f"{unparse(c)[:90]}"
    rep.add(rid, "enum:enumerators numbered 0..n-1 in declared order", ok, detail, f"{ci.mod.rel}:{fn.lineno}")
    fo = Folder(prog, ci.mod, fn, ci)
    tpl = next((fo.fold(st.value) for st in walk_no_nested(fn) if isinstance(st, ast.Assign)
                and isinstance(st.value, ast.Call) and unparse(st.value.func) == "textwrap.dedent"), None)
    lit = " ".join(tpl.literal("@").split()) if tpl else ""
    rep.add(rid, "enum:classdef <Name> < uint32 with an enumeration block", lit.startswith("classdef {0} < uint32 enumeration {1} end end"),
            lit[:70], f"{ci.mod.rel}:{fn.lineno}")


PKG_FORM = "''.join(['+' + _x + '/' for _x in _NS.full_namespaces()[1:]])[:-1]"


def _combine_defs(fn, e: ast.AST) -> ast.AST:
    """x = A ; x += B   ->   A + B   (the only multi-definition shape the path builders use)."""
    if isinstance(e, ast.Name):
        sts = sorted(local_assignments(fn).get(e.id, []), key=lambda st: st.lineno)
        if len(sts) == 2 and isinstance(sts[0], ast.Assign) and isinstance(sts[1], ast.AugAssign) and isinstance(sts[1].op, ast.Add) \
                and parent(sts[0]) is parent(sts[1]):
            return ast.BinOp(left=sts[0].value, op=ast.Add(), right=sts[1].value)
    return e


def _pkg_norm(fn, e: ast.AST) -> str:
    x = inline_locals(fn, _combine_defs(fn, e))
    txt = unparse(x)
    # rename comprehension variable and the namespace object
    t = ast.parse(txt, mode="eval").body
    for n in ast.walk(t):
        if isinstance(n, (ast.ListComp, ast.GeneratorExp)):
            v = n.generators[0].target.id if isinstance(n.generators[0].target, ast.Name) else None
            for m in ast.walk(n):
                if isinstance(m, ast.Name) and m.id == v:
                    m.id = "_x"
    for n in ast.walk(t):
        if isinstance(n, ast.Call) and isinstance(n.func, ast.Attribute) and n.func.attr in ("full_namespaces", "namespaces") \
                and isinstance(n.func.value, ast.Name):
            n.func.value.id = "_NS"
        if isinstance(n, ast.Call) and isinstance(n.func, ast.Attribute) and n.func.attr in ("full_namespaces",) \
                and isinstance(n.func.value, ast.Attribute) and n.func.value.attr == "parent":
            n.func.value = ast.Name(id="_NS", ctx=ast.Load())
    out = unparse(t)
    out = out.replace("f'+{_x}/'", "'+' + _x + '/'")
    return out


def rule_package_paths(ctx, rep: Report, rid="T3", min_sites=4):
    ci, prog = mw(ctx)
    sites = []
    for mname in ("wrap_namespace", "wrap_methods", "wrap_instantiated_class"):
        fn = prog.method("MatlabWrapper", mname)
        for c in walk_no_nested(fn):
            if isinstance(c, ast.Call) and isinstance(c.func, ast.Attribute) and c.func.attr == "append" and c.args \
                    and isinstance(c.args[0], ast.Tuple) and len(c.args[0].elts) == 2 and isinstance(c.args[0].elts[1], ast.List):
                sites.append((mname, fn, c, c.args[0].elts[0]))
    n = 0
    for mname, fn, c, pathx in sites:
        n += 1
        norm = _pkg_norm(fn, pathx)
        kind = "class-scoped enum" if mname == "wrap_instantiated_class" else (
            "global function" if mname == "wrap_methods" else ("class" if "class_text" in unparse(c) or "wrap_instantiated_class" in unparse(inline_locals(fn, c.args[0].elts[1])) else "namespace enum"))
        if mname == "wrap_instantiated_class":
            t = ast.parse(norm, mode="eval").body
            ok = False
            if isinstance(t, ast.BinOp) and isinstance(t.op, ast.Add):
                left = unparse(t.left).replace("_NS.namespaces()", "_NS.full_namespaces()")
                right = t.right
                ok_left = left in ("''.join(['+' + _x + '/' for _x in _NS.full_namespaces()[1:]])",
                                   "''.join(('+' + _x + '/' for _x in _NS.full_namespaces()[1:]))")
                ok_right = isinstance(right, ast.JoinedStr) and "".join(
                    v.value if isinstance(v, ast.Constant) else "@" for v in right.values) == "+@" and \
                    unparse(right.values[1].value).endswith(".name")
                ok = ok_left and ok_right
            want = "<package path of the namespace> + '+<Class>'"
        else:
            ok = norm == PKG_FORM
            want = PKG_FORM
        rep.add(rid, f"package path:{kind} ({mname})", ok,
                f"the folder path is computed as `{norm[:110]}`; every kind of entity must be placed by the same rule "
                f"{want}: joining namespace names without '/+' puts `a::b::C::K` into +ab/+C instead of +a/+b/+C",
                f"{ci.mod.rel}:{c.lineno}")
    if n < min_sites:
        raise AnalysisError(f"{rep.prop}/{rid}: {n} package-path sites, {min_sites} expected")


def rule_classdef_complete(ctx, rep: Report, rid="T4"):
    ci, prog = mw(ctx)
    fn = prog.method("MatlabWrapper", "wrap_instantiated_class")
    ip = func_params(fn)[1]
    need = {"wrap_properties_block": "pointer property block", "wrap_class_constructors": "constructor",
            "wrap_class_deconstructor": "delete", "wrap_class_display": "display", "wrap_static_methods": "static methods block"}
    acc = None
    rets = [r for r in walk_no_nested(fn) if isinstance(r, ast.Return) and isinstance(r.value, ast.Tuple)]
    if rets:
        acc = unparse(rets[-1].value.elts[1])
    for meth, what in need.items():
        calls = [c for c in walk_no_nested(fn) if isinstance(c, ast.Call) and unparse(c.func) == f"self.{meth}"]
        ok = len(calls) == 1
        if ok:
            st = stmt_of(calls[0])
            ok = isinstance(st, ast.AugAssign) and unparse(st.target) == acc and not guards_of(st, fn, include_exits=False)
        rep.add(rid, f"classdef:{what} appended unconditionally", ok,
                f"{meth} must be called once and its text appended to the classdef on every path", f"{ci.mod.rel}:{fn.lineno}")
    # methods / property accessors under "has any"
    for meth, attr in (("wrap_class_methods", "methods"), ("wrap_class_properties", "properties")):
        calls = [c for c in walk_no_nested(fn) if isinstance(c, ast.Call) and unparse(c.func) == f"self.{meth}"]
        gs = [t.replace(" ", "") for t, pol in guards_of(calls[0], fn, include_exits=False) if pol] if calls else None
        rep.add(rid, f"classdef:{attr} emitted iff the class has any", gs == [f"len({ip}.{attr})!=0"], f"guards {gs}",
                f"{ci.mod.rel}:{fn.lineno}")
    # base
    fo = Folder(prog, ci.mod, fn, ci)
    ok = False
    for st in walk_no_nested(fn):
        if isinstance(st, ast.AugAssign) and "classdef" in unparse(st.value):
            t = fo.fold(st.value)
            if t is not None and t.slot("parent") is not None:
                pe = unparse(t.slot("parent").expr)
                ok = f"self._qualified_name({ip}.parent_class)" in pe and " ".join(t.literal("@").split()) == "classdef @ < @"
    qn = prog.method("MatlabWrapper", "_qualified_name")
    rep.add(rid, "classdef:names the declared base, or handle when there is none",
            ok and "'handle' if" in unparse(qn) and "== ''" in unparse(qn), unparse(qn.body[-1]), f"{ci.mod.rel}:{fn.lineno}")


def rule_one_mex_source(ctx, rep: Report, rid="T5"):
    ci, prog = mw(ctx)
    wn = prog.method("MatlabWrapper", "wrap_namespace")
    flag = func_params(wn)[2]
    adds = [c for c in walk_no_nested(wn) if isinstance(c, ast.Call) and unparse(c.func) == "self.content.append"
            and ".cpp" in unparse(inline_locals(wn, c.args[0]))]
    ok = len(adds) == 1 and [t for t, pol in guards_of(adds[0], wn, include_exits=False) if pol] == [flag]
    rec = [c for c in walk_no_nested(wn) if isinstance(c, ast.Call) and unparse(c.func) == "self.wrap_namespace"]
    rec_ok = all((len(c.args) > 1 and unparse(c.args[1]) == "False") or any(k.arg == flag and unparse(k.value) == "False" for k in c.keywords)
                 for c in rec)
    rep.add(rid, "MEX source entry added by the top-level call only", ok and rec_ok and bool(rec),
            f"{len(adds)} .cpp entries under {[guards_of(a, wn, include_exits=False) for a in adds]}; recursive calls pass "
            f"{[unparse(c) for c in rec]}", f"{ci.mod.rel}:{wn.lineno}")
    gw = prog.method("MatlabWrapper", "generate_wrapper")
    names = [unparse(inline_locals(gw, c.args[0].elts[0])) for c in walk_no_nested(gw) if isinstance(c, ast.Call)
             and unparse(c.func) == "self.content.append" and isinstance(c.args[0], ast.Tuple)]
    wn_names = [unparse(inline_locals(wn, a.args[0].elts[0])) for a in adds if isinstance(a.args[0], ast.Tuple)]
    rep.add(rid, "the generated MEX source replaces the placeholder under the same file name", names == wn_names and len(names) == 1,
            f"generate_wrapper writes {names}, wrap_namespace reserved {wn_names}", f"{ci.mod.rel}:{gw.lineno}")


# ==========================================================================================
# C11: ownership obligations of the routine templates (C++ inside Python string templates)
import re as _re


def _cpp_text(t: Tpl) -> str:
    return "".join(p if isinstance(p, str) else f"__{p.key}__" for p in t.parts)


def _tokens(text: str) -> List[str]:
    return _re.findall(r"[A-Za-z_][A-Za-z_0-9]*|::|->|\*\*|!=|==|\+\+|--|[{}()\[\];,*&<>=!.+\-]|\"[^\"]*\"|\d+", text)


def routine_templates(ctx) -> Dict[str, Tuple[Tpl, int, str]]:
    """Folded C++ routine templates: name -> (template, line, where)."""
    ci, prog = mw(ctx)
    out: Dict[str, Tuple[Tpl, int, str]] = {}
    gc = prog.method("MatlabWrapper", "generate_collector_function")
    fo = Folder(prog, ci.mod, gc, ci)
    k = 0
    for c in sorted((x for x in ast.walk(gc) if isinstance(x, ast.Call) and isinstance(x.func, ast.Attribute) and x.func.attr == "format"),
                    key=lambda x: x.lineno):
        p = parent(c)
        if isinstance(p, ast.Attribute) and p.attr == "format":
            continue
        try:
            t = fo.fold(c)
        except AnalysisError:
            continue
        if t is None:
            continue
        txt = _cpp_text(t)
        gs = [g for g, pol in guards_of(c, gc, include_exits=False) if pol]
        role = next((g for g in reversed(gs) if "==" in g or "is_" in g), "top")
        tag = None
        allg = " ".join(gs)
        is_base = "SharedBase" in txt and "new Shared(new" not in txt and ".insert(" not in txt
        if "'deconstructor'" in allg:
            tag = "deconstructor"
        elif "'constructor'" in allg:
            tag = "base:constructor" if is_base else "constructor"
        elif "'collectorInsertAndMakeBase'" in allg:
            tag = "base:collectorInsertAndMakeBase" if is_base else "collectorInsertAndMakeBase"
        if tag in out:
            tag = None
        if tag:
            out[tag] = (t, c.lineno, ci.mod.rel)
    tci = prog.cls("WrapperTemplate")
    for attr in ("collector_function_upcast_from_void", "delete_obj", "delete_all_objects", "typdef_collectors"):
        a = prog.find_attr(tci, attr)
        if a is None:
            raise AnalysisError(f"WrapperTemplate.{attr} vanished")
        t = Folder(prog, tci.mod, None, tci).fold(a[1])
        if t is None:
            raise AnalysisError(f"WrapperTemplate.{attr} not foldable")
        # class-level templates are formatted later: parse their placeholders now
        t = t.apply_format([], {}, None)
        t.missing = []
        out[attr] = (t, a[1].lineno, tci.mod.rel)
    return out


def rule_create_register(ctx, rep: Report, rid="H1"):
    rts = routine_templates(ctx)
    n = 0
    for name, (t, line, rel) in sorted(rts.items()):
        txt = _cpp_text(t)
        m = _re.search(r"Shared\s*\*\s*(\w+)\s*=\s*new\s+Shared\s*\(", txt)
        if not m:
            continue
        n += 1
        var = m.group(1)
        inserted = _re.search(r"collector___class_name__\s*\.\s*insert\s*\(\s*" + var + r"\s*\)", txt) is not None
        stored = _re.search(r"\*\s*reinterpret_cast\s*<\s*Shared\s*\*\*\s*>\s*\(\s*mxGetData\s*\(\s*out\[0\]\s*\)\s*\)\s*=\s*" + var, txt) is not None
        if name == "collector_function_upcast_from_void":
            # registration happens in the collector routine the .m constructor calls unconditionally next
            ok_m = _upcast_followed_by_collector(ctx)
            rep.add(rid, "up-cast routine:its new handle is registered by the collector call that unconditionally follows in the .m constructor",
                    stored and ok_m, f"handle stored in out[0]: {stored}; .m sequence ok: {ok_m}", f"{rel}:{line}")
            continue
        rep.add(rid, f"{name} routine:every heap-allocated handle is inserted into the class's collector and returned", inserted and stored,
                f"`{var} = new Shared(...)`: inserted into collector: {inserted}; stored in out[0]: {stored} - a handle that is "
                f"not registered is never freed at unload; one that is not returned is lost immediately", f"{rel}:{line}")
    if n < 2:
        raise AnalysisError(f"{rep.prop}/{rid}: {n} allocating routine templates found, 2 expected")


def _upcast_followed_by_collector(ctx) -> bool:
    ci, prog = mw(ctx)
    fn = prog.method("MatlabWrapper", "wrap_class_constructors")
    fo = Folder(prog, ci.mod, fn, ci)
    seq = []
    for st in sorted((s for s in walk_no_nested(fn) if isinstance(s, ast.AugAssign)), key=lambda s: s.lineno):
        t = fo.fold(st.value)
        if t is None:
            continue
        txt = _cpp_text(t)
        gs = guards_of(st, fn, include_exits=False)
        if "my_ptr = __wrapper_name__(__id__, varargin{2})" in txt.replace("{{", "{").replace("}}", "}"):
            seq.append(("upcast", gs, st.lineno))
        if _re.search(r"__wrapper_name__\(__id__, my_ptr\)", txt):
            seq.append(("collector", gs, st.lineno))
    kinds = [k for k, _, _ in seq]
    if kinds != ["upcast", "collector"]:
        return False
    return [g for g, pol in seq[1][1]] == []


def rule_destroy_once(ctx, rep: Report, rid="H2"):
    rts = routine_templates(ctx)
    if "deconstructor" not in rts:
        raise AnalysisError("deconstructor routine template not found")
    t, line, rel = rts["deconstructor"]
    txt = _cpp_text(t)
    toks = _tokens(txt)
    s = " ".join(toks)
    got = _re.search(r"Shared \* (\w+) = \* reinterpret_cast < Shared \*\* > \( mxGetData \( in \[ 0 \] \) \)", s)
    var = got.group(1) if got else None
    ndel = len(_re.findall(r"\bdelete\b", s))
    find = var is not None and f". find ( {var} )" in s
    erase_guarded = _re.search(r"if \( (\w+) != collector___class_name__ \. end \( \) \) \{ collector___class_name__ \. erase \( \1 \) ; \}", s) is not None
    order = var is not None and erase_guarded and s.find("erase") < s.find(f"delete {var}")
    rep.add("H2", "destructor routine:looks the handle up, erases it when found, deletes it exactly once afterwards",
            bool(got) and find and erase_guarded and ndel == 1 and order,
            f"handle read from in[0]: {bool(got)}; find: {find}; guarded erase: {erase_guarded}; delete statements: {ndel}; "
            f"erase before delete: {order}", f"{rel}:{line}")
    chk = 'checkArguments ( "delete___class_name__" , nargout , nargin , 1 )' in s
    rep.add("H2", "destructor routine:takes exactly the handle", chk, "", f"{rel}:{line}", nontrivial=False)
    t2, line2, rel2 = rts["delete_obj"]
    s2 = " ".join(_tokens(_cpp_text(t2)))
    ok2 = "delete * iter ;" in s2 and "collector___class_name__ . erase ( iter ++ )" in s2 and s2.count("delete") == 1 \
        and s2.find("delete * iter") < s2.find("erase ( iter ++ )")
    rep.add("H2", "unload clean-up:each remaining handle is deleted once and removed from its collector", ok2, s2[:160], f"{rel2}:{line2}")


def rule_unload_hook(ctx, rep: Report, rid="H3"):
    rts = routine_templates(ctx)
    n = 0
    for name, (t, line, rel) in sorted(rts.items()):
        txt = _cpp_text(t)
        if ".insert(" not in txt and "new Shared(" not in txt:
            continue
        n += 1
        i_hook = txt.find("mexAtExit(&_deleteAllObjects)")
        i_first = min([i for i in (txt.find(".insert("), txt.find("new Shared(")) if i >= 0])
        rep.add(rid, f"{name} routine:unload hook registered before the first handle is created or inserted",
                0 <= i_hook < i_first, f"mexAtExit at offset {i_hook}, first allocation/insert at {i_first}", f"{rel}:{line}")
    if n < 3:
        raise AnalysisError(f"{rep.prop}/{rid}: {n} registering templates found, 3 expected")
    t, line, rel = rts["delete_all_objects"]
    rep.add(rid, "_deleteAllObjects:splices the per-class clean-up fragments", "__delete_objs__" in _cpp_text(t), "", f"{rel}:{line}",
            nontrivial=False)


def rule_base_handle(ctx, rep: Report, rid="H4"):
    rts = routine_templates(ctx)
    n = 0
    for name, (t, line, rel) in sorted(rts.items()):
        if not name.startswith("base:"):
            continue
        n += 1
        s = " ".join(_tokens(_cpp_text(t)))
        m = _re.search(r"out \[ (\d) \] = mxCreateNumericMatrix \( 1 , 1 , mxUINT32OR64_CLASS , mxREAL \) ; "
                       r"\* reinterpret_cast < SharedBase \*\* > \( mxGetData \( out \[ (\d) \] \) \) = new SharedBase \( \* self \)", s)
        want = "1" if name.endswith("constructor") else "0"
        rep.add(rid, f"{name} routine:the base-class handle is heap-allocated from *self and handed to MATLAB in out[{want}]",
                m is not None and m.group(1) == m.group(2) == want and s.count("new SharedBase") == 1,
                s[:200], f"{rel}:{line}")
    if n < 2:
        raise AnalysisError(f"{rep.prop}/{rid}: {n} base-handle fragments found, 2 expected")
