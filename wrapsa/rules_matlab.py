"""MATLAB generator rules: C15 (X1-X4), C10 (T1-T5), C06 (M1-M7), C11 (H1-H4), C16/Y1."""
from __future__ import annotations

import ast
import copy
from typing import Dict, List, Optional, Set, Tuple

from .core import AnalysisError, Report
from .emit import Folder, Slot, Tpl
from .prog import (ClassInfo, Program, bind_call, dotted, enclosing, func_params, guards_of, inline_locals,
                   local_assignments, parent, stmt_of, unparse, walk_no_nested)

MW = "gtwrap/matlab_wrapper/wrapper.py"


def mw(ctx) -> Tuple[ClassInfo, Program]:
    return ctx.prog.cls("MatlabWrapper"), ctx.prog


def canon_expr(fn, e: ast.AST, subject: Optional[str] = None) -> str:
    """Inline single-assignment locals and rename the subject variable to `_S`."""
    x = inline_locals(fn, e)
    if subject:
        for n in ast.walk(x):
            if isinstance(n, ast.Name) and n.id == subject:
                n.id = "_S"
    return unparse(x)


# ------------------------------------------------------------------------------------------
# C15
def _ignore_tests(cls_fn) -> List[ast.Compare]:
    return [c for c in ast.walk(cls_fn) if isinstance(c, ast.Compare) and len(c.ops) == 1 and isinstance(c.ops[0], (ast.In, ast.NotIn))
            and unparse(c.comparators[0]) == "self.ignore_classes"]


def rule_one_ignore_key(ctx, rep: Report, rid="X1"):
    prog = ctx.prog
    for cls, min_sites in (("PybindWrapper", 3), ("MatlabWrapper", 2)):
        ci = prog.cls(cls)
        forms: Dict[str, List[str]] = {}
        n = 0
        for c in prog.mro(ci):
            for mname, fn in c.methods.items():
                for t in _ignore_tests(fn):
                    n += 1
                    # subject: the variable the key is computed from
                    key = inline_locals(fn, t.left)
                    roots = [x.id for x in ast.walk(key) if isinstance(x, ast.Name) and x.id != "self"]
                    subj = roots[0] if roots else None
                    forms.setdefault(canon_expr(fn, t.left, subj), []).append(f"{mname}@{t.lineno}")
        ok = len(forms) == 1 and n >= min_sites
        rep.add(rid, f"{cls}:every ignore-list test uses the same key for a class", ok,
                f"{n} tests, key forms: " + " | ".join(f"{k}  [{', '.join(v)}]" for k, v in forms.items()) +
                (": the forms differ for some classes (e.g. a class at global scope), so one artefact of the class is "
                 "suppressed and another is not" if len(forms) > 1 else ""), f"{ci.mod.rel}:0")
        if n < min_sites:
            raise AnalysisError(f"{rep.prop}/{rid}: {n} ignore tests in {cls}, {min_sites} expected")


def rule_ignore_dominates_matlab(ctx, rep: Report, rid="X2"):
    ci, prog = mw(ctx)
    fn = prog.method("MatlabWrapper", "wrap_instantiated_class")
    tests = [i for i in fn.body if isinstance(i, ast.If) and _ignore_tests(i.test if isinstance(i.test, ast.AST) else i)]
    tests = [i for i in fn.body if isinstance(i, ast.If) and any(True for _ in _ignore_tests(i.test))]
    ok = len(tests) == 1 and isinstance(tests[0].body[0], ast.Return)
    first_effect = None
    for st in fn.body:
        txt = unparse(st)
        if "_update_wrapper_id" in txt or "self.content.append" in txt or "self.wrap_class_" in txt or "self.class_comment" in txt \
                or "self.wrap_methods" in txt or "self.wrap_static_methods" in txt or "self.wrap_enum" in txt:
            first_effect = st
            break
    rep.add(rid, "wrap_instantiated_class:ignore test returns before any id is allocated or text/file entry produced",
            ok and first_effect is not None and tests[0].lineno < first_effect.lineno,
            f"ignore test at line {tests[0].lineno if tests else None}, first effect at line "
            f"{first_effect.lineno if first_effect is not None else None}", f"{ci.mod.rel}:{fn.lineno}")
    gp = prog.method("MatlabWrapper", "generate_preamble")
    loops = [l for l in gp.body if isinstance(l, ast.For) and unparse(l.iter) == "self.classes"]
    if len(loops) != 1:
        raise AnalysisError("generate_preamble: loop over self.classes not found")
    body = loops[0].body
    itest = [i for i in body if isinstance(i, ast.If) and any(True for _ in _ignore_tests(i.test))]
    ok2 = len(itest) == 1 and isinstance(itest[0].body[-1], ast.Continue)
    emits = [st for st in body if isinstance(st, (ast.AugAssign,)) or (isinstance(st, ast.Expr) and ".append(" in unparse(st))
             or (isinstance(st, ast.If) and st not in itest)]
    rep.add(rid, "generate_preamble:ignored class skipped before collector, clean-up entry, RTTI entry and typedef",
            ok2 and all(itest[0].lineno < e.lineno for e in emits) and bool(emits),
            f"ignore test line {itest[0].lineno if itest else None}; emissions at {[e.lineno for e in emits]}",
            f"{ci.mod.rel}:{gp.lineno}")


def rule_none_result_handled(ctx, rep: Report, rid="X3"):
    ci, prog = mw(ctx)
    n = 0
    for c in prog.mro(ci):
        for mname, fn in c.methods.items():
            for call in walk_no_nested(fn):
                if not (isinstance(call, ast.Call) and unparse(call.func) == "self.wrap_instantiated_class"):
                    continue
                n += 1
                p = parent(call)
                if not (isinstance(p, ast.Assign) and len(p.targets) == 1 and isinstance(p.targets[0], ast.Name)):
                    rep.add(rid, f"caller:{mname}:result of wrap_instantiated_class bound to a local and tested", False,
                            "the result (None for an ignored class) is used directly", f"{c.mod.rel}:{call.lineno}")
                    continue
                var = p.targets[0].id
                blk_parent = parent(p)
                bad = []
                for u in walk_no_nested(fn):
                    if isinstance(u, ast.Name) and u.id == var and isinstance(u.ctx, ast.Load) and u.lineno > p.lineno:
                        q = parent(u)
                        if isinstance(q, ast.Subscript) and q.value is u or isinstance(q, ast.Attribute):
                            # dereference: must be under a None test of var, and belong to this assignment's region
                            same_region = enclosing(u, (ast.If,)) is not None and any(
                                var in g and ("None" in g) for g, pol in guards_of(u, fn, include_exits=False))
                            # only consider uses that this assignment reaches (same enclosing branch)
                            if _same_branch(p, u) and not same_region:
                                bad.append(u.lineno)
                rep.add(rid, f"caller:{mname}@{_branch_tag(p, fn)}:None result (ignored class) tested before use", not bad,
                        f"`{var}` is subscripted at line(s) {bad} without a None test: ignoring such a class raises "
                        f"TypeError('NoneType' object is not subscriptable)", f"{c.mod.rel}:{call.lineno}")
    if n < 2:
        raise AnalysisError(f"{rep.prop}/{rid}: {n} callers of wrap_instantiated_class, 2 expected")
    fn = prog.method("MatlabWrapper", "wrap_instantiated_class")
    rets = [unparse(r.value) if r.value is not None else "None" for r in walk_no_nested(fn) if isinstance(r, ast.Return)]
    rep.add(rid, "wrap_instantiated_class:returns None exactly for an ignored class", rets.count("None") == 1, f"returns {rets}",
            f"{ci.mod.rel}:{fn.lineno}", nontrivial=False)


def _same_branch(assign: ast.AST, use: ast.AST) -> bool:
    blk = parent(assign)
    n = use
    while n is not None:
        if n is blk:
            # same list?
            for fld in ("body", "orelse"):
                lst = getattr(blk, fld, None)
                if isinstance(lst, list) and assign in lst:
                    x = use
                    while parent(x) is not blk:
                        x = parent(x)
                    return x in lst
            return True
        n = parent(n)
    return False


def _branch_tag(node, fn) -> str:
    gs = guards_of(node, fn, include_exits=False)
    return ("if " if gs and gs[-1][1] else "else of ") + gs[-1][0][:30] if gs else "top"


# ------------------------------------------------------------------------------------------
# C16 / Y1
def rule_file_separator(ctx, rep: Report, rid="Y1"):
    ci, prog = mw(ctx)
    fn = prog.method("MatlabWrapper", "wrap")
    loops = [l for l in walk_no_nested(fn) if isinstance(l, ast.For) and unparse(l.iter) == func_params(fn)[1]]
    if len(loops) != 1:
        raise AnalysisError("MatlabWrapper.wrap: loop over the file list not found")
    accs = [a for a in ast.walk(loops[0]) if isinstance(a, ast.AugAssign) and isinstance(a.op, ast.Add)]
    joined = [c for c in walk_no_nested(fn) if isinstance(c, ast.Call) and isinstance(c.func, ast.Attribute) and c.func.attr == "join"
              and isinstance(c.func.value, ast.Constant)]
    ok = False
    detail = ""
    if accs:
        v = accs[0].value
        consts = [c.value for c in ast.walk(v) if isinstance(c, ast.Constant) and isinstance(c.value, str)]
        ok = any("\n" in c for c in consts)
        detail = f"accumulated as `{unparse(accs[0])}`"
    elif joined:
        ok = "\n" in joined[0].func.value.value
        detail = f"joined with {joined[0].func.value.value!r}"
    rep.add(rid, "MatlabWrapper.wrap:file contents are separated by a line break before parsing", ok,
            f"{detail}: the text of one file runs straight into the next, so a first file ending in a `//` comment "
            f"(or in the middle of a token) swallows / fuses with the next file's first declaration",
            f"{ci.mod.rel}:{loops[0].lineno}")
    parse = [c for c in walk_no_nested(fn) if isinstance(c, ast.Call) and unparse(c.func).endswith("Module.parseString")]
    rep.add(rid, "MatlabWrapper.wrap:the concatenation is parsed once", len(parse) == 1, f"{len(parse)} parse calls",
            f"{ci.mod.rel}:{fn.lineno}", nontrivial=False)
